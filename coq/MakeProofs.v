(* MakeMove (model: Make.make) against the rules of chess (Spec.apply / Spec.in_check): proof of
   MakeSpec.make_spec_statement.  No axioms, nothing admitted. *)
From Coq Require Import ZArith List Bool Lia ZifyBool Permutation.
Require Import Base Generated Position Attack Make WF ListProofs AttackProofs.
Require Spec.
Require Import Abs MakeSpec.
Import ListNotations.
Open Scope Z_scope.

(* ====================================================================================================== *)
(* 1. squares as 16 * rank + file                                                                         *)
(* ====================================================================================================== *)

Lemma fr_facts : forall f r, 0 <= f < 8 -> 0 <= r < 8 ->
  validb (16 * r + f) = true /\ coords (16 * r + f) = (f, r) /\ fileof (16 * r + f) = f /\ rankof (16 * r + f) = 16 * r.
Proof.
  intros f r Hf Hr.
  assert (Ef : f = 0 \/ f = 1 \/ f = 2 \/ f = 3 \/ f = 4 \/ f = 5 \/ f = 6 \/ f = 7) by lia.
  assert (Er : r = 0 \/ r = 1 \/ r = 2 \/ r = 3 \/ r = 4 \/ r = 5 \/ r = 6 \/ r = 7) by lia.
  clear Hf Hr.
  destruct Ef as [->|[->|[->|[->|[->|[->|[->| ->]]]]]]];
  destruct Er as [->|[->|[->|[->|[->|[->|[->| ->]]]]]]]; vm_compute; repeat split; reflexivity.
Qed.

Lemma valid_fr_sweep :
  forallb (fun s => let f := Z.land s 15 in let r := Z.shiftr s 4 in
                    (0 <=? f) && (f <? 8) && (0 <=? r) && (r <? 8) && (s =? 16 * r + f)) valid_squares = true.
Proof. vm_compute. reflexivity. Qed.

Lemma valid_fr : forall s, validb s = true -> exists f r, 0 <= f < 8 /\ 0 <= r < 8 /\ s = 16 * r + f.
Proof.
  intros s H. pose proof (forallb_valid _ valid_fr_sweep s H) as P. cbv beta zeta in P.
  exists (Z.land s 15), (Z.shiftr s 4). lia.
Qed.

(* the facts about a valid square, packaged *)
Record sqrep (s f r : Z) : Prop := {
  sr_f : 0 <= f < 8; sr_r : 0 <= r < 8; sr_eq : s = 16 * r + f;
  sr_valid : validb s = true; sr_coords : coords s = (f, r); sr_file : fileof s = f; sr_rank : rankof s = 16 * r }.

Lemma sqrep_of_valid : forall s, validb s = true -> exists f r, sqrep s f r.
Proof.
  intros s H. destruct (valid_fr s H) as [f [r [Hf [Hr E]]]]. exists f, r.
  destruct (fr_facts f r Hf Hr) as [A [B [C D]]]. rewrite <- E in *. constructor; assumption.
Qed.

Lemma sqrep_of_fr : forall f r, 0 <= f < 8 -> 0 <= r < 8 -> sqrep (16 * r + f) f r.
Proof.
  intros f r Hf Hr. destruct (fr_facts f r Hf Hr) as [A [B [C D]]]. constructor; auto.
Qed.

Lemma valid_of_fr : forall s f r, 0 <= f < 8 -> 0 <= r < 8 -> s = 16 * r + f -> validb s = true.
Proof. intros s f r Hf Hr ->. apply (fr_facts f r Hf Hr). Qed.

Lemma on_fr : forall f r, 0 <= f < 8 -> 0 <= r < 8 -> Spec.on (f, r) = true.
Proof. intros. unfold Spec.on. cbn [fst snd]. lia. Qed.

Lemma on_inv : forall x, Spec.on x = true -> 0 <= fst x < 8 /\ 0 <= snd x < 8.
Proof. intros [f r]. unfold Spec.on. cbn [fst snd]. lia. Qed.

Lemma abs_fr : forall b f r, 0 <= f < 8 -> 0 <= r < 8 -> abs_board b (f, r) = abs_cell (get b (16 * r + f)).
Proof.
  intros b f r Hf Hr. unfold abs_board. rewrite (on_fr f r Hf Hr). unfold sq88. cbn [fst snd].
  replace (r * 16 + f) with (16 * r + f) by lia. reflexivity.
Qed.

Lemma abs_off : forall b x, Spec.on x = false -> abs_board b x = None.
Proof. intros b x H. unfold abs_board. rewrite H. reflexivity. Qed.

Lemma empty_fr : forall b f r, 0 <= f < 8 -> 0 <= r < 8 -> Spec.empty (abs_board b) (f, r) = is_empty (get b (16 * r + f)).
Proof. intros. unfold Spec.empty. rewrite abs_fr by assumption. destruct (get b _); reflexivity. Qed.
Lemma has_fr : forall b f r c k, 0 <= f < 8 -> 0 <= r < 8 -> Spec.has (abs_board b) (f, r) c k = is_pc c k (get b (16 * r + f)).
Proof. intros. unfold Spec.has. rewrite abs_fr by assumption. destruct (get b _); reflexivity. Qed.
Lemma owned_fr : forall b f r c, 0 <= f < 8 -> 0 <= r < 8 -> Spec.owned (abs_board b) (f, r) c = is_col c (get b (16 * r + f)).
Proof. intros. unfold Spec.owned. rewrite abs_fr by assumption. destruct (get b _); reflexivity. Qed.

Lemma sq_eqb_fr : forall f r f' r', Spec.sq_eqb (f, r) (f', r') = ((f =? f') && (r =? r')).
Proof. reflexivity. Qed.

(* ---------- board reads after writes ---------- *)

Lemma get_set_if : forall b s v z, length b = 128%nat -> 0 <= s < 128 -> 0 <= z ->
  get (set b s v) z = if z =? s then v else get b z.
Proof.
  intros b s v z Hl Hs Hz. destruct (Z.eqb_spec z s) as [->|Hne].
  - apply get_set_same. lia.
  - apply get_set_other; lia.
Qed.

Lemma color_eqb_opp : forall c, color_eqb c (opp c) = false.
Proof. destruct c; reflexivity. Qed.
Lemma color_eqb_opp' : forall c, color_eqb (opp c) c = false.
Proof. destruct c; reflexivity. Qed.
Lemma kind_eqb_refl : forall k, kind_eqb k k = true.
Proof. destruct k; reflexivity. Qed.
Lemma kind_eqb_eq : forall k k', kind_eqb k k' = true -> k = k'.
Proof. destruct k, k'; cbn; congruence. Qed.
Lemma color_eqb_neq : forall c c', color_eqb c c' = false -> c' = opp c.
Proof. destruct c, c'; cbn; congruence. Qed.

(* ====================================================================================================== *)
(* 2. lists_ok as three "the list enumerates the squares whose cell satisfies Q" statements              *)
(* ====================================================================================================== *)

Definition qpawn (c : color) (x : cell) : bool := is_pc c Pawn x.
Definition qking (c : color) (x : cell) : bool := is_pc c King x.
Definition qpiece (c : color) (x : cell) : bool :=
  match x with Pc c' k => color_eqb c c' && is_piece_kind k | Empty => false end.

Definition LQ (Q : cell -> bool) (b : list cell) (l : list Z) : Prop :=
  NoDup l /\ forall s, In s l <-> (validb s = true /\ Q (get b s) = true).

Definition LO (b : list cell) (c : color) (pieces pawns : list Z) (king : Z) : Prop :=
  LQ (qpiece c) b pieces /\ LQ (qpawn c) b pawns /\ LQ (qking c) b [king].

Lemma LQ_memb : forall Q b l s, LQ Q b l -> validb s = true -> memb s l = Q (get b s).
Proof.
  intros Q b l s [_ H] Hv. apply eq_true_iff_eq. rewrite ListProofs.memb_In, H. tauto.
Qed.

Lemma lists_ok_LO : forall b c pieces pawns king, lists_ok b c pieces pawns king = true -> LO b c pieces pawns king.
Proof.
  intros b c pieces pawns king H. pose proof H as H0. unfold lists_ok in H0.
  apply andb_prop in H0 as [H0 _]. apply andb_prop in H0 as [H0 _]. apply andb_prop in H0 as [H0 _].
  apply andb_prop in H0 as [H0 Hk]. apply andb_prop in H0 as [Hn1 Hn2].
  apply nodupb_NoDup in Hn1, Hn2.
  split; [|split]; (split; [try assumption|intros s; split]).
  - intros Hin. destruct (lo_piece _ _ _ _ _ _ H Hin) as [Hv [k [Hk' Hg]]]. split; [exact Hv|]. rewrite Hg. unfold qpiece.
    rewrite color_eqb_refl, Hk'. reflexivity.
  - intros [Hv Hq]. unfold qpiece in Hq. destruct (get b s) as [|c' k] eqn:Hg; [discriminate|].
    apply andb_prop in Hq as [Hc Hk']. apply color_eqb_eq in Hc. subst c'.
    pose proof (lo_cell _ _ _ _ _ _ _ H Hv Hg) as L. destruct k; try discriminate Hk'; exact L.
  - intros Hin. destruct (lo_pawn _ _ _ _ _ _ H Hin) as [Hv Hg]. split; [exact Hv|]. rewrite Hg. unfold qpawn. cbn.
    rewrite color_eqb_refl. reflexivity.
  - intros [Hv Hq]. unfold qpawn, is_pc in Hq. destruct (get b s) as [|c' k] eqn:Hg; [discriminate|].
    apply andb_prop in Hq as [Hc Hk']. apply color_eqb_eq in Hc. apply kind_eqb_eq in Hk'. subst c' k.
    exact (lo_cell _ _ _ _ _ _ _ H Hv Hg).
  - constructor; [intros []|constructor].
  - intros [<-|[]]. split; [exact Hk|]. destruct (lo_king _ _ _ _ _ H) as [_ Hg]. rewrite Hg. unfold qking. cbn.
    rewrite color_eqb_refl. reflexivity.
  - intros [Hv Hq]. unfold qking, is_pc in Hq. destruct (get b s) as [|c' k] eqn:Hg; [discriminate|].
    apply andb_prop in Hq as [Hc Hk']. apply color_eqb_eq in Hc. apply kind_eqb_eq in Hk'. subst c' k.
    left. symmetry. exact (lo_cell _ _ _ _ _ _ _ H Hv Hg).
Qed.

Lemma LO_lists_ok : forall b c pieces pawns king, LO b c pieces pawns king -> lists_ok b c pieces pawns king = true.
Proof.
  intros b c pieces pawns king [Hpc [Hpw Hkg]].
  assert (Hkv : validb king = true) by (apply (proj2 Hkg king); left; reflexivity).
  unfold lists_ok. rewrite !andb_true_iff. split; [split; [split; [split; [split|]|]|]|].
  - apply nodupb_NoDup. exact (proj1 Hpc).
  - apply nodupb_NoDup. exact (proj1 Hpw).
  - exact Hkv.
  - apply forallb_forall. intros s Hs. apply validb_In in Hs.
    rewrite (LQ_memb _ _ _ _ Hpc Hs), (LQ_memb _ _ _ _ Hpw Hs).
    assert (Ek : (s =? king) = qking c (get b s)).
    { rewrite <- (LQ_memb _ _ _ _ Hkg Hs). unfold memb. cbn [existsb]. rewrite orb_false_r. reflexivity. }
    rewrite Ek. unfold qpiece, qpawn, qking, is_pc.
    destruct (get b s) as [|c' k]; [reflexivity|]. destruct c, c', k; reflexivity.
  - apply forallb_forall. intros s Hs. apply (proj2 Hpc s). exact Hs.
  - apply forallb_forall. intros s Hs. apply (proj2 Hpw s). exact Hs.
Qed.

(* ---------- how the list operations of make act on LQ ---------- *)

Lemma LQ_frame : forall Q b b' l, LQ Q b l ->
  (forall s, validb s = true -> Q (get b' s) = Q (get b s)) -> LQ Q b' l.
Proof.
  intros Q b b' l [Hn H] Hf. split; [exact Hn|]. intros s. rewrite H. split; intros [Hv Hq]; split; try assumption.
  - rewrite Hf by assumption. exact Hq.
  - rewrite <- Hf by assumption. exact Hq.
Qed.

Lemma LQ_replace : forall Q b b' l a t, LQ Q b l -> validb a = true -> validb t = true ->
  Q (get b a) = true -> Q (get b t) = false ->
  (forall s, validb s = true -> Q (get b' s) = if s =? t then true else if s =? a then false else Q (get b s)) ->
  LQ Q b' (replace_first l a t).
Proof.
  intros Q b b' l a t [Hn H] Ha Ht Hqa Hqt Hf.
  assert (Hina : In a l) by (apply H; split; assumption).
  assert (Hnt : ~ In t l) by (rewrite H; intros [_ E]; congruence).
  split; [apply replace_first_NoDup; assumption|].
  intros s. rewrite (replace_first_In l a t s Hn Hina). split.
  - intros [[Hs Hne]| ->].
    + apply H in Hs. destruct Hs as [Hv Hq]. split; [exact Hv|]. rewrite Hf by exact Hv.
      destruct (Z.eqb_spec s t); [reflexivity|]. destruct (Z.eqb_spec s a); [contradiction|exact Hq].
    + split; [exact Ht|]. rewrite Hf by exact Ht. rewrite Z.eqb_refl. reflexivity.
  - intros [Hv Hq]. rewrite Hf in Hq by exact Hv.
    destruct (Z.eqb_spec s t); [right; assumption|]. destruct (Z.eqb_spec s a); [discriminate|].
    left. split; [apply H; split; assumption|assumption].
Qed.

Lemma LQ_kill : forall Q b b' l a l' why, LQ Q b l -> kill why l a = Ok l' ->
  (forall s, validb s = true -> Q (get b' s) = if s =? a then false else Q (get b s)) -> LQ Q b' l'.
Proof.
  intros Q b b' l a l' why [Hn H] Hk Hf. split; [eapply kill_NoDup; eassumption|].
  intros s. rewrite (kill_In why l a l' s Hn Hk), H. split.
  - intros [[Hv Hq] Hne]. split; [exact Hv|]. rewrite Hf by exact Hv. destruct (Z.eqb_spec s a); [contradiction|exact Hq].
  - intros [Hv Hq]. rewrite Hf in Hq by exact Hv. destruct (Z.eqb_spec s a); [discriminate|]. tauto.
Qed.

Lemma LQ_append : forall Q b b' l t, LQ Q b l -> validb t = true -> Q (get b t) = false ->
  (forall s, validb s = true -> Q (get b' s) = if s =? t then true else Q (get b s)) -> LQ Q b' (l ++ [t]).
Proof.
  intros Q b b' l t [Hn H] Ht Hqt Hf.
  assert (Hnt : ~ In t l) by (rewrite H; intros [_ E]; congruence).
  split.
  - eapply Permutation_NoDup; [apply Permutation_cons_append|]. constructor; assumption.
  - intros s. rewrite in_app_iff. cbn [In]. split.
    + intros [Hs|[<-|[]]].
      * apply H in Hs. destruct Hs as [Hv Hq]. split; [exact Hv|]. rewrite Hf by exact Hv.
        destruct (s =? t); [reflexivity|exact Hq].
      * split; [exact Ht|]. rewrite Hf by exact Ht. rewrite Z.eqb_refl. reflexivity.
    + intros [Hv Hq]. rewrite Hf in Hq by exact Hv. destruct (Z.eqb_spec s t); [right; left; congruence|].
      left. apply H. tauto.
Qed.

Lemma replace_first_single : forall a t, replace_first [a] a t = [t].
Proof. intros. unfold replace_first. cbn [index_of]. rewrite Z.eqb_refl. reflexivity. Qed.

Lemma LQ_king : forall Q b b' a t, LQ Q b [a] -> validb t = true ->
  Q (get b a) = true -> Q (get b t) = false ->
  (forall s, validb s = true -> Q (get b' s) = if s =? t then true else if s =? a then false else Q (get b s)) ->
  LQ Q b' [t].
Proof.
  intros Q b b' a t H Ht Hqa Hqt Hf. rewrite <- (replace_first_single a t).
  apply (LQ_replace Q b b' [a] a t H); try assumption. apply (proj2 H a). left. reflexivity.
Qed.

Lemma LQ_In : forall Q b l s, LQ Q b l -> validb s = true -> Q (get b s) = true -> In s l.
Proof. intros Q b l s [_ H] Hv Hq. apply H. tauto. Qed.
Lemma LQ_valid : forall Q b l s, LQ Q b l -> In s l -> validb s = true.
Proof. intros Q b l s [_ H] Hin. apply H in Hin. tauto. Qed.
Lemma LQ_Q : forall Q b l s, LQ Q b l -> In s l -> Q (get b s) = true.
Proof. intros Q b l s [_ H] Hin. apply H in Hin. tauto. Qed.


(* ====================================================================================================== *)
(* 3. make, phase by phase                                                                                *)
(* ====================================================================================================== *)

Definition mk_pos (p : pos) (b4 : list cell) (cp1 cw1 : list Z) (ck1 : Z) (ep1 ew2 : list Z)
                  (cK cQ eK eQ : bool) (mepv : Z) : pos :=
  if wturn p then
    {| board := b4; bpieces := ep1; wpieces := cp1; bpawns := ew2; wpawns := cw1; bking := en_king p; wking := ck1;
       wturn := false; wK := cK; wQ := cQ; bK := eK; bQ := eQ; ep := mepv; ply := int16 (ply p + 1) |}
  else
    {| board := b4; bpieces := cp1; wpieces := ep1; bpawns := cw1; wpawns := ew2; bking := ck1; wking := en_king p;
       wturn := true; wK := eK; wQ := eQ; bK := cK; bQ := cQ; ep := mepv; ply := int16 (ply p + 1) |}.

Definition ph1 (p : pos) (m : move) : result (list Z * list Z * Z * list cell * bool) :=
  let c := cur_color p in
  let b := board p in
  let from := mfrom m in let to := mto m in
  let cpieces := cur_pieces p in let cpawns := cur_pawns p in let cking := cur_king p in
  let crank := castle_rank c in
  let moved := get b from in
  let is_pawn := is_pc c Pawn moved in
    (if is_pawn then
       match mpromo m with
       | None => Ok (cpieces, replace_first cpawns from to, cking, b, false)
       | Some _ =>
           match index_of from cpawns with
           | Some i => do cp <- append_cap P_APPEND_PIECE pieceCap cpieces to; Ok (cp, swap_remove cpawns i, cking, b, false)
           | None => Ok (cpieces, cpawns, cking, b, false)
           end
       end
     else if from =? cking then
       if fileof from =? 4 then
         if fileof to =? 2 then
           Ok (replace_first cpieces (0 + crank) (3 + crank), cpawns, to,
               set (set b (0 + crank) Empty) (3 + crank) (Pc c Rook), true)
         else if fileof to =? 6 then
           Ok (replace_first cpieces (7 + crank) (5 + crank), cpawns, to,
               set (set b (7 + crank) Empty) (5 + crank) (Pc c Rook), true)
         else Ok (cpieces, cpawns, to, b, true)
       else Ok (cpieces, cpawns, to, b, true)
     else Ok (replace_first cpieces from to, cpawns, cking, b, false)).

Definition ph3 (p : pos) (m : move) (b1 : list cell) : result (list Z * list Z) :=
  let e := opp (cur_color p) in
  let to := mto m in
  let epieces := en_pieces p in let epawns := en_pawns p in
  let target := get b1 to in
    (match target with
     | Empty => Ok (epieces, epawns)
     | _ => if is_pc e King target then Ok (epieces, epawns)
            else if is_pc e Pawn target then do ep' <- kill P_KILL_PAWN epawns to; Ok (epieces, ep')
            else do ep' <- kill P_KILL_PIECE epieces to; Ok (ep', epawns)
     end).

Definition ph4 (p : pos) (m : move) (b1 : list cell) (epawns1 : list Z) : result (list cell * list Z) :=
  let c := cur_color p in
  let from := mfrom m in let to := mto m in
    (match mpromo m with
     | None =>
         let b2 := set b1 to (get b1 from) in
         if (ep p =? to) && is_pc c Pawn (get b2 from) then
           let ks := fileof to + rankof from in
           do ep' <- kill P_KILL_PAWN epawns1 ks; Ok (set b2 ks Empty, ep')
         else Ok (b2, epawns1)
     | Some k => Ok (set b1 to (Pc c k), epawns1)
     end).

Definition fcK (p : pos) (m : move) (km : bool) : bool :=
  (if wturn p then wK p else bK p) && negb km && negb ((fileof (mfrom m) =? 7) && (rankof (mfrom m) =? castle_rank (cur_color p))).
Definition fcQ (p : pos) (m : move) (km : bool) : bool :=
  (if wturn p then wQ p else bQ p) && negb km && negb ((fileof (mfrom m) =? 0) && (rankof (mfrom m) =? castle_rank (cur_color p))).
Definition feK (p : pos) (m : move) : bool :=
  (if wturn p then bK p else wK p) && negb ((fileof (mto m) =? 7) && (rankof (mto m) =? castle_rank (opp (cur_color p)))).
Definition feQ (p : pos) (m : move) : bool :=
  (if wturn p then bQ p else wQ p) && negb ((fileof (mto m) =? 0) && (rankof (mto m) =? castle_rank (opp (cur_color p)))).

Lemma make_phases : forall p m,
  make p m =
  (do st1 <- ph1 p m;
   let '(cp1, cw1, ck1, b1, km) := st1 in
   do st2 <- ph3 p m b1;
   let '(ep1, ew1) := st2 in
   do st3 <- ph4 p m b1 ew1;
   let '(b3, ew2) := st3 in
   Ok (mk_pos p (set b3 (mfrom m) Empty) cp1 cw1 ck1 ep1 ew2 (fcK p m km) (fcQ p m km) (feK p m) (feQ p m) (mep m),
       negb (is_under_check (set b3 (mfrom m) Empty) ep1 ew2 (en_king p) ck1))).
Proof. reflexivity. Qed.

Lemma make_run : forall p m cp1 cw1 ck1 b1 km ep1 ew1 b3 ew2,
  ph1 p m = Ok (cp1, cw1, ck1, b1, km) -> ph3 p m b1 = Ok (ep1, ew1) -> ph4 p m b1 ew1 = Ok (b3, ew2) ->
  make p m =
   Ok (mk_pos p (set b3 (mfrom m) Empty) cp1 cw1 ck1 ep1 ew2 (fcK p m km) (fcQ p m km) (feK p m) (feQ p m) (mep m),
       negb (is_under_check (set b3 (mfrom m) Empty) ep1 ew2 (en_king p) ck1)).
Proof.
  intros p m cp1 cw1 ck1 b1 km ep1 ew1 b3 ew2 H1 H3 H4. rewrite make_phases, H1. cbn [bind]. rewrite H3. cbn [bind].
  rewrite H4. reflexivity.
Qed.

(* ====================================================================================================== *)
(* 4. well-formedness of the assembled position                                                           *)
(* ====================================================================================================== *)

Lemma int16_small : forall z, 0 <= z < 32767 -> int16 z = z.
Proof. intros z H. unfold int16. rewrite Z.mod_small by lia. lia. Qed.

Lemma rank_forallb : forall l l', (forall s, In s l -> rankof s <> 0 /\ rankof s <> 112) ->
  (forall s, In s l' -> rankof s <> 0 /\ rankof s <> 112) ->
  forallb (fun s => negb ((rankof s =? 0) || (rankof s =? 112))) (l ++ l') = true.
Proof.
  intros l l' H H'. apply forallb_forall. intros s Hs. apply in_app_or in Hs.
  assert (R : rankof s <> 0 /\ rankof s <> 112) by (destruct Hs; auto). lia.
Qed.

Lemma cell_eqb_refl : forall x, cell_eqb x x = true.
Proof. destruct x as [|c k]; [reflexivity|]. cbn. rewrite color_eqb_refl, kind_eqb_refl. reflexivity. Qed.

Lemma cell_eqb_eq : forall x y, cell_eqb x y = true -> x = y.
Proof.
  intros [|c k] [|c' k']; cbn; try congruence. intros H. apply andb_prop in H as [H1 H2].
  apply color_eqb_eq in H1. apply kind_eqb_eq in H2. congruence.
Qed.

Lemma flag_conj : forall (fl : bool) (x1 c1 x2 c2 : cell), (fl = true -> x1 = c1 /\ x2 = c2) ->
  negb fl || cell_eqb x1 c1 && cell_eqb x2 c2 = true.
Proof. intros [|] x1 c1 x2 c2 H; [|reflexivity]. destruct (H eq_refl) as [-> ->]. rewrite !cell_eqb_refl. reflexivity. Qed.

Definition home_ok (b : list cell) (c : color) (flag : bool) (rookfile : Z) : Prop :=
  flag = true -> get b (4 + castle_rank c) = Pc c King /\ get b (rookfile + castle_rank c) = Pc c Rook.

Definition ep_good (p : pos) (b4 : list cell) (e : Z) : Prop :=
  e = INVALID \/
  (let d := if wturn p then 16 else -16 in
   rankof e = (if wturn p then 32 else 80) /\ validb e = true /\
   get b4 (e + d) = Pc (cur_color p) Pawn /\ get b4 e = Empty /\ get b4 (e - d) = Empty).

Ltac split_andb := repeat match goal with |- (_ && _) = true => apply andb_true_intro; split end.

Lemma ep_ok_mk : forall p b4 cp1 cw1 ck1 ep1 ew2 cK cQ eK eQ mepv,
  ep_good p b4 mepv -> ep_ok (mk_pos p b4 cp1 cw1 ck1 ep1 ew2 cK cQ eK eQ mepv) = true.
Proof.
  intros p b4 cp1 cw1 ck1 ep1 ew2 cK cQ eK eQ mepv Hep. unfold ep_good in Hep. revert Hep.
  unfold mk_pos, cur_color, ep_ok. destruct (wturn p); cbn [board wturn ep]; intros [->|[E1 [E2 [E3 [E4 E5]]]]];
    try reflexivity.
  - rewrite E1, E2, E3, E4, E5. cbn. apply orb_true_r.
  - replace (mepv + -16) with (mepv - 16) in E3 by lia. replace (mepv - -16) with (mepv + 16) in E5 by lia.
    rewrite E1, E2, E3, E4, E5. cbn. apply orb_true_r.
Qed.

Lemma castle_ok_mk : forall p b4 cp1 cw1 ck1 ep1 ew2 cK cQ eK eQ mepv,
  home_ok b4 (cur_color p) cK 7 -> home_ok b4 (cur_color p) cQ 0 ->
  home_ok b4 (opp (cur_color p)) eK 7 -> home_ok b4 (opp (cur_color p)) eQ 0 ->
  castle_flags_ok (mk_pos p b4 cp1 cw1 ck1 ep1 ew2 cK cQ eK eQ mepv) = true.
Proof.
  intros p b4 cp1 cw1 ck1 ep1 ew2 cK cQ eK eQ mepv. unfold home_ok, mk_pos, cur_color, castle_flags_ok.
  destruct (wturn p); cbn [opp castle_rank board wK wQ bK bQ]; intros HK HQ HeK HeQ; split_andb; apply flag_conj; assumption.
Qed.

Lemma wf_mk_pos : forall p b4 cp1 cw1 ck1 ep1 ew2 cK cQ eK eQ mepv,
  length b4 = 128%nat ->
  forallb (fun s => onb s || is_empty (get b4 s)) squares128 = true ->
  LO b4 (cur_color p) cp1 cw1 ck1 -> LO b4 (opp (cur_color p)) ep1 ew2 (en_king p) ->
  (length cw1 <= pawnCap)%nat -> (length ew2 <= pawnCap)%nat ->
  (length cp1 + length cw1 <= pieceCap)%nat -> (length ep1 + length ew2 <= pieceCap)%nat ->
  (forall s, In s cw1 -> rankof s <> 0 /\ rankof s <> 112) ->
  (forall s, In s ew2 -> rankof s <> 0 /\ rankof s <> 112) ->
  home_ok b4 (cur_color p) cK 7 -> home_ok b4 (cur_color p) cQ 0 ->
  home_ok b4 (opp (cur_color p)) eK 7 -> home_ok b4 (opp (cur_color p)) eQ 0 ->
  ep_good p b4 mepv ->
  0 <= ply p -> ply p + 1 < 32767 ->
  wf (mk_pos p b4 cp1 cw1 ck1 ep1 ew2 cK cQ eK eQ mepv) = true.
Proof.
  intros p b4 cp1 cw1 ck1 ep1 ew2 cK cQ eK eQ mepv Hlen Hoff Hc He L1 L2 L3 L4 R1 R2 HK HQ HeK HeQ Hep Hp0 Hp1.
  assert (Hply : int16 (ply p + 1) = ply p + 1) by (apply int16_small; lia).
  pose proof (ep_ok_mk p b4 cp1 cw1 ck1 ep1 ew2 cK cQ eK eQ mepv Hep) as Hep'.
  pose proof (castle_ok_mk p b4 cp1 cw1 ck1 ep1 ew2 cK cQ eK eQ mepv HK HQ HeK HeQ) as Hca.
  apply LO_lists_ok in Hc, He.
  unfold wf. rewrite Hep', Hca. clear Hep' Hca HK HQ HeK HeQ Hep.
  apply Nat.leb_le in L1, L2, L3, L4.
  revert Hc He.
  unfold mk_pos, cur_color. destruct (wturn p); cbn [opp]; intros Hc He;
  cbn [board bpieces wpieces bpawns wpawns bking wking wturn wK wQ bK bQ ep ply];
  rewrite Hlen, Hoff, Hc, He, Hply, L1, L2, L3, L4.
  - rewrite (rank_forallb _ _ R1 R2). clear - Hp0 Hp1. cbn [Nat.eqb andb]. lia.
  - rewrite (rank_forallb _ _ R2 R1). clear - Hp0 Hp1. cbn [Nat.eqb andb]. lia.
Qed.


(* ====================================================================================================== *)
(* 5. the verdict: is_under_check on a position with consistent lists is Spec.in_check                    *)
(* ====================================================================================================== *)

Lemma forallb_ext' : forall A (f g : A -> bool) l, (forall x, f x = g x) -> forallb f l = forallb g l.
Proof. intros A f g l H. induction l as [|x l IH]; cbn [forallb]; [reflexivity|]. rewrite H, IH. reflexivity. Qed.
Lemma existsb_ext' : forall A (f g : A -> bool) l, (forall x, f x = g x) -> existsb f l = existsb g l.
Proof. intros A f g l H. induction l as [|x l IH]; cbn [existsb]; [reflexivity|]. rewrite H, IH. reflexivity. Qed.
Lemma find_ext' : forall A (f g : A -> bool) l, (forall x, f x = g x) -> find f l = find g l.
Proof. intros A f g l H. induction l as [|x l IH]; cbn [find]; [reflexivity|]. rewrite H, IH. reflexivity. Qed.

Section Ext.
  Variables b b' : Spec.board.
  Hypothesis E : forall s, b s = b' s.

  Lemma empty_ext : forall s, Spec.empty b s = Spec.empty b' s.
  Proof. intros s. unfold Spec.empty. rewrite E. reflexivity. Qed.
  Lemma has_ext : forall s c k, Spec.has b s c k = Spec.has b' s c k.
  Proof. intros. unfold Spec.has. rewrite E. reflexivity. Qed.
  Lemma owned_ext : forall s c, Spec.owned b s c = Spec.owned b' s c.
  Proof. intros. unfold Spec.owned. rewrite E. reflexivity. Qed.
  Lemma between_empty_ext : forall s t, Spec.between_empty b s t = Spec.between_empty b' s t.
  Proof. intros. unfold Spec.between_empty. cbv zeta. apply forallb_ext'. intros k. apply empty_ext. Qed.
  Lemma piece_attacks_ext : forall c k s t, Spec.piece_attacks b c k s t = Spec.piece_attacks b' c k s t.
  Proof. intros c k s t. unfold Spec.piece_attacks. cbv zeta. rewrite between_empty_ext. reflexivity. Qed.
  Lemma attacks_ext : forall s t, Spec.attacks b s t = Spec.attacks b' s t.
  Proof. intros. unfold Spec.attacks. rewrite E. destruct (b' s) as [[c k]|]; [apply piece_attacks_ext|reflexivity]. Qed.
  Lemma attacked_ext : forall c t, Spec.attacked b c t = Spec.attacked b' c t.
  Proof. intros. unfold Spec.attacked. apply existsb_ext'. intros s. rewrite owned_ext, attacks_ext. reflexivity. Qed.
  Lemma king_sq_ext : forall c, Spec.king_sq b c = Spec.king_sq b' c.
  Proof. intros. unfold Spec.king_sq. apply find_ext'. intros s. apply has_ext. Qed.
  Lemma in_check_ext : forall c, Spec.in_check b c = Spec.in_check b' c.
  Proof. intros. unfold Spec.in_check. rewrite king_sq_ext. destruct (Spec.king_sq b' c); [apply attacked_ext|reflexivity]. Qed.
End Ext.

Lemma find_map_unique : forall (A B : Type) (g : A -> B) (f : B -> bool) (l : list A) (k : A),
  In k l -> f (g k) = true -> (forall y, In y l -> f (g y) = true -> y = k) -> find f (map g l) = Some (g k).
Proof.
  intros A B g f l k. induction l as [|x l IH]; intros Hin Hf Hu; [destruct Hin|].
  cbn [map find]. destruct (f (g x)) eqn:Ex.
  - rewrite (Hu x (or_introl eq_refl) Ex). reflexivity.
  - destruct Hin as [->|Hin]; [congruence|]. apply IH; try assumption. intros y Hy. apply Hu. right. exact Hy.
Qed.

Lemma has_coords : forall b s c k, validb s = true -> Spec.has (abs_board b) (coords s) c k = is_pc c k (get b s).
Proof. intros. unfold Spec.has. rewrite abs_at by assumption. destruct (get b s); reflexivity. Qed.

Lemma king_sq_LO : forall b c king, LQ (qking c) b [king] -> Spec.king_sq (abs_board b) c = Some (coords king).
Proof.
  intros b c king H. unfold Spec.king_sq. rewrite <- coords_map.
  assert (Hv : validb king = true) by (apply (LQ_valid _ _ _ _ H); left; reflexivity).
  apply find_map_unique.
  - apply validb_In. exact Hv.
  - rewrite has_coords by exact Hv. apply (LQ_Q _ _ _ _ H). left. reflexivity.
  - intros y Hy Hh. apply validb_In in Hy. rewrite has_coords in Hh by exact Hy.
    pose proof (LQ_In _ _ _ _ H Hy Hh) as [<-|[]]. reflexivity.
Qed.

Lemma in_check_LO : forall b c pcs pws k epcs epws ek,
  LO b c pcs pws k -> LO b (opp c) epcs epws ek ->
  is_under_check b epcs epws ek k = Spec.in_check (abs_board b) c.
Proof.
  intros b c pcs pws k epcs epws ek Hc He. unfold Spec.in_check.
  rewrite (king_sq_LO b c k (proj2 (proj2 Hc))).
  apply is_under_check_spec; [apply LO_lists_ok; exact He|].
  apply (LQ_valid _ _ _ _ (proj2 (proj2 Hc))). left. reflexivity.
Qed.

(* ====================================================================================================== *)
(* 6. fields of Spec.apply                                                                                *)
(* ====================================================================================================== *)

Lemma apply_turn : forall a m, Spec.turn (Spec.apply a m) = opp (Spec.turn a).
Proof. reflexivity. Qed.
Lemma apply_ply : forall a m, Spec.ply (Spec.apply a m) = Spec.ply a + 1.
Proof. reflexivity. Qed.
Lemma apply_rK : forall a m col, Spec.rK (Spec.apply a m) col =
  Spec.rK a col && negb (Spec.sq_eqb (Spec.mfrom m) (4, Spec.home_rank col) || Spec.sq_eqb (Spec.mto m) (4, Spec.home_rank col))
               && negb (Spec.sq_eqb (Spec.mfrom m) (7, Spec.home_rank col) || Spec.sq_eqb (Spec.mto m) (7, Spec.home_rank col)).
Proof. reflexivity. Qed.
Lemma apply_rQ : forall a m col, Spec.rQ (Spec.apply a m) col =
  Spec.rQ a col && negb (Spec.sq_eqb (Spec.mfrom m) (4, Spec.home_rank col) || Spec.sq_eqb (Spec.mto m) (4, Spec.home_rank col))
               && negb (Spec.sq_eqb (Spec.mfrom m) (0, Spec.home_rank col) || Spec.sq_eqb (Spec.mto m) (0, Spec.home_rank col)).
Proof. reflexivity. Qed.
Lemma apply_ep : forall a m, Spec.ep (Spec.apply a m) =
  if Spec.has (Spec.brd a) (Spec.mfrom m) (Spec.turn a) Pawn && (Z.abs (snd (Spec.mto m) - snd (Spec.mfrom m)) =? 2)
  then Some (fst (Spec.mfrom m), snd (Spec.mfrom m) + Spec.fwd (Spec.turn a)) else None.
Proof. reflexivity. Qed.

Lemma equiv_mk_pos : forall p m b4 cp1 cw1 ck1 ep1 ew2 cK cQ eK eQ mepv,
  (forall x, abs_board b4 x = Spec.brd (Spec.apply (abs p) (absm m)) x) ->
  cK = Spec.rK (Spec.apply (abs p) (absm m)) (cur_color p) ->
  cQ = Spec.rQ (Spec.apply (abs p) (absm m)) (cur_color p) ->
  eK = Spec.rK (Spec.apply (abs p) (absm m)) (opp (cur_color p)) ->
  eQ = Spec.rQ (Spec.apply (abs p) (absm m)) (opp (cur_color p)) ->
  (if onb mepv then Some (coords mepv) else None) = Spec.ep (Spec.apply (abs p) (absm m)) ->
  0 <= ply p -> ply p + 1 < 32767 ->
  pos_equiv (abs (mk_pos p b4 cp1 cw1 ck1 ep1 ew2 cK cQ eK eQ mepv)) (Spec.apply (abs p) (absm m)).
Proof.
  intros p m b4 cp1 cw1 ck1 ep1 ew2 cK cQ eK eQ mepv Hb HK HQ HeK HeQ Hep Hp0 Hp1.
  assert (Hply : int16 (ply p + 1) = ply p + 1) by (apply int16_small; lia).
  unfold pos_equiv. rewrite apply_turn, apply_ply. rewrite <- Hep.
  change (Spec.turn (abs p)) with (cur_color p). change (Spec.ply (abs p)) with (ply p).
  clear Hep. revert Hb HK HQ HeK HeQ. generalize (Spec.apply (abs p) (absm m)). intros A.
  unfold mk_pos, abs, cur_color.
  destruct (wturn p); cbn [opp Spec.brd Spec.turn Spec.rK Spec.rQ Spec.ep Spec.ply board wturn wK wQ bK bQ ep ply];
    intros Hb HK HQ HeK HeQ; (split; [exact Hb|]); (split; [reflexivity|]);
    (split; [intros [|]; assumption|]); (split; [intros [|]; assumption|]); (split; [reflexivity|]); exact Hply.
Qed.


(* ====================================================================================================== *)
(* 7. what wf says, in mover / opponent form                                                              *)
(* ====================================================================================================== *)

Definition offb (b : list cell) : Prop := forallb (fun s => onb s || is_empty (get b s)) squares128 = true.

Record wf_facts (p : pos) : Prop := {
  wl_len : length (board p) = 128%nat;
  wl_off : offb (board p);
  wl_cur : LO (board p) (cur_color p) (cur_pieces p) (cur_pawns p) (cur_king p);
  wl_en : LO (board p) (opp (cur_color p)) (en_pieces p) (en_pawns p) (en_king p);
  wl_cpw : (length (cur_pawns p) <= pawnCap)%nat;
  wl_epw : (length (en_pawns p) <= pawnCap)%nat;
  wl_cpc : (length (cur_pieces p) + length (cur_pawns p) <= pieceCap)%nat;
  wl_epc : (length (en_pieces p) + length (en_pawns p) <= pieceCap)%nat;
  wl_crk : forall s, In s (cur_pawns p) -> rankof s <> 0 /\ rankof s <> 112;
  wl_erk : forall s, In s (en_pawns p) -> rankof s <> 0 /\ rankof s <> 112;
  wl_cK : home_ok (board p) (cur_color p) (if wturn p then wK p else bK p) 7;
  wl_cQ : home_ok (board p) (cur_color p) (if wturn p then wQ p else bQ p) 0;
  wl_eK : home_ok (board p) (opp (cur_color p)) (if wturn p then bK p else wK p) 7;
  wl_eQ : home_ok (board p) (opp (cur_color p)) (if wturn p then bQ p else wQ p) 0;
  wl_ep : ep p = INVALID \/
          (let d := if wturn p then 16 else -16 in
           validb (ep p) = true /\ rankof (ep p) = (if wturn p then 80 else 32) /\
           get (board p) (ep p - d) = Pc (opp (cur_color p)) Pawn /\ get (board p) (ep p) = Empty /\
           get (board p) (ep p + d) = Empty);
  wl_ply : 0 <= ply p }.

Lemma is_empty_eq : forall x, is_empty x = true -> x = Empty.
Proof. destruct x; [reflexivity|discriminate]. Qed.

Lemma flag_conj_inv : forall (fl : bool) (x1 c1 x2 c2 : cell),
  negb fl || cell_eqb x1 c1 && cell_eqb x2 c2 = true -> fl = true -> x1 = c1 /\ x2 = c2.
Proof.
  intros fl x1 c1 x2 c2 H ->. cbn [negb orb] in H. apply andb_prop in H as [A B].
  apply cell_eqb_eq in A, B. tauto.
Qed.

Lemma wf_facts_of : forall p, wf p = true -> wf_facts p.
Proof.
  intros p H. unfold wf in H.
  repeat match type of H with (_ && _) = true => let H' := fresh "W" in apply andb_prop in H as [H H'] end.
  rename H into W11.
  (* W : ply<, W0 : 0<=ply, W1 : ep_ok, W2 : castle, W3 : ranks, W4 W5 : piececap b w, W6 W7 : pawncap b w, W8 : black, W9 : white, W10 : off, W11 : len *)
  apply lists_ok_LO in W8, W9. apply Nat.leb_le in W4, W5, W6, W7. apply Nat.eqb_eq in W11.
  assert (R : forall s, In s (wpawns p ++ bpawns p) -> rankof s <> 0 /\ rankof s <> 112).
  { intros s Hs. rewrite forallb_forall in W3. specialize (W3 s Hs). cbv beta in W3. clear - W3. lia. }
  unfold castle_flags_ok in W2.
  repeat match type of W2 with (_ && _) = true => let H' := fresh "C" in apply andb_prop in W2 as [W2 H'] end.
  pose proof (flag_conj_inv _ _ _ _ _ W2) as C2. pose proof (flag_conj_inv _ _ _ _ _ C1) as C1'.
  pose proof (flag_conj_inv _ _ _ _ _ C0) as C0'. pose proof (flag_conj_inv _ _ _ _ _ C) as C'.
  clear W2 C1 C0 C.
  assert (E : ep p = INVALID \/
          (let d := if wturn p then 16 else -16 in
           validb (ep p) = true /\ rankof (ep p) = (if wturn p then 80 else 32) /\
           get (board p) (ep p - d) = Pc (opp (cur_color p)) Pawn /\ get (board p) (ep p) = Empty /\
           get (board p) (ep p + d) = Empty)).
  { unfold ep_ok in W1. apply orb_prop in W1 as [W1|W1]; [left; apply Z.eqb_eq; exact W1|right].
    cbv zeta in W1. unfold cur_color. destruct (wturn p); cbv zeta; cbn [opp].
    - repeat match type of W1 with (_ && _) = true => let H' := fresh "E" in apply andb_prop in W1 as [W1 H'] end.
      apply is_empty_eq in E, E0. apply cell_eqb_eq in E1. apply Z.eqb_eq in W1. tauto.
    - repeat match type of W1 with (_ && _) = true => let H' := fresh "E" in apply andb_prop in W1 as [W1 H'] end.
      apply is_empty_eq in E, E0. apply cell_eqb_eq in E1. apply Z.eqb_eq in W1.
      replace (ep p - -16) with (ep p + 16) by lia. replace (ep p + -16) with (ep p - 16) by lia. tauto. }
  assert (P0 : 0 <= ply p) by (clear - W0; lia).
  clear W W0 W1 W3.
  unfold cur_color, cur_pieces, cur_pawns, cur_king, en_pieces, en_pawns, en_king in *.
  constructor; unfold home_ok, cur_color, cur_pieces, cur_pawns, cur_king, en_pieces, en_pawns, en_king;
    try assumption; destruct (wturn p); cbn [opp castle_rank]; try assumption;
    try (intros s Hs; apply R; apply in_or_app; tauto); try lia.
Qed.

Lemma offb_set : forall b s v, length b = 128%nat -> offb b -> validb s = true -> offb (set b s v).
Proof.
  intros b s v Hl Ho Hs. unfold offb in *. rewrite forallb_forall in *. intros z Hz.
  pose proof (Ho z Hz) as Hoz. apply squares128_In in Hz. destruct (validb_range s Hs) as [Hr Hon].
  rewrite get_set_if by lia. destruct (Z.eqb_spec z s) as [->|_]; [rewrite Hon; reflexivity|exact Hoz].
Qed.

(* ---------- the opponent's king cannot be the target ---------- *)

Lemma not_cap_spec : forall p, wf p = true -> not_capturable p = true ->
  Spec.attacked (abs_board (board p)) (cur_color p) (coords (en_king p)) = false.
Proof.
  intros p Hwf Hnc. destruct (wf_facts_of p Hwf) as [_ _ Hc He _ _ _ _ _ _ _ _ _ _ _ _].
  unfold not_capturable, in_check in Hnc. apply negb_true_iff in Hnc.
  assert (Hv : validb (en_king p) = true) by (apply (LQ_valid _ _ _ _ (proj2 (proj2 He))); left; reflexivity).
  rewrite <- (is_under_check_spec _ _ _ _ _ _ (LO_lists_ok _ _ _ _ _ Hc) Hv).
  rewrite <- Hnc. unfold flip_turn, en_pieces, en_pawns, en_king, cur_king, cur_pieces, cur_pawns.
  cbn [board wturn bpieces wpieces bpawns wpawns bking wking]. destruct (wturn p); reflexivity.
Qed.

Lemma no_king_capture : forall p from to k, wf p = true -> not_capturable p = true ->
  validb from = true -> validb to = true -> get (board p) from = Pc (cur_color p) k ->
  Spec.attacks (abs_board (board p)) (coords from) (coords to) = true ->
  get (board p) to <> Pc (opp (cur_color p)) King.
Proof.
  intros p from to k Hwf Hnc Hf Ht Hg Ha Hk.
  pose proof (not_cap_spec p Hwf Hnc) as N.
  destruct (wf_facts_of p Hwf) as [_ _ Hc He _ _ _ _ _ _ _ _ _ _ _ _].
  assert (E : to = en_king p).
  { assert (I : In to [en_king p]).
    { apply (LQ_In _ _ _ _ (proj2 (proj2 He)) Ht). rewrite Hk. unfold qking. cbn. rewrite color_eqb_refl. reflexivity. }
    destruct I as [<-|[]]. reflexivity. }
  subst to. unfold Spec.attacked in N.
  assert (T : existsb (fun s => Spec.owned (abs_board (board p)) s (cur_color p) &&
                               Spec.attacks (abs_board (board p)) s (coords (en_king p))) Spec.all_sq = true).
  { apply existsb_exists. exists (coords from). split; [apply coords_in_all; exact Hf|].
    rewrite Ha. unfold Spec.owned. rewrite abs_at by exact Hf. rewrite Hg. cbn. rewrite color_eqb_refl. reflexivity. }
  congruence.
Qed.

Lemma target_cases : forall c x, is_col c x = false -> x <> Pc (opp c) King ->
  x = Empty \/ x = Pc (opp c) Pawn \/ exists k, is_piece_kind k = true /\ x = Pc (opp c) k.
Proof.
  intros c [|c' k] H N; [left; reflexivity|right]. cbn in H. apply color_eqb_neq in H. subst c'.
  destruct k; try (right; eexists; split; [|reflexivity]; reflexivity); [left; reflexivity|contradiction].
Qed.

(* ====================================================================================================== *)
(* 8. castling rights: the model's clearing rules against Spec.apply's                                    *)
(* ====================================================================================================== *)

Lemma castle_home : forall c, castle_rank c = 16 * Spec.home_rank c /\ 0 <= Spec.home_rank c < 8.
Proof. destruct c; cbn; lia. Qed.

Lemma keep_own : forall (flag : bool) b c ck k from to ff fr tf tr rf,
  0 <= rf < 8 -> rf <> 4 ->
  sqrep from ff fr -> sqrep to tf tr -> LQ (qking c) b [ck] ->
  home_ok b c flag rf -> get b from = Pc c k -> is_col c (get b to) = false ->
  (flag && negb (kind_eqb k King) && negb ((ff =? rf) && (16 * fr =? castle_rank c)) =
   flag && negb (Spec.sq_eqb (ff, fr) (4, Spec.home_rank c) || Spec.sq_eqb (tf, tr) (4, Spec.home_rank c))
        && negb (Spec.sq_eqb (ff, fr) (rf, Spec.home_rank c) || Spec.sq_eqb (tf, tr) (rf, Spec.home_rank c)))
  /\ (flag && negb (kind_eqb k King) && negb ((ff =? rf) && (16 * fr =? castle_rank c)) = true ->
      4 + castle_rank c <> from /\ 4 + castle_rank c <> to /\ rf + castle_rank c <> from /\ rf + castle_rank c <> to /\
      get b (4 + castle_rank c) = Pc c King /\ get b (rf + castle_rank c) = Pc c Rook).
Proof.
  intros flag b c ck k from to ff fr tf tr rf Hrf Hrf4 Rf Rt Hk Hh Hfrom Hto.
  destruct (castle_home c) as [Ecr Hhr]. rewrite !sq_eqb_fr.
  destruct flag; [|split; [reflexivity|discriminate]]. cbn [andb].
  destruct (Hh eq_refl) as [A B].
  assert (V4 : validb (4 + castle_rank c) = true) by (apply (valid_of_fr _ 4 (Spec.home_rank c)); lia).
  assert (Eck : 4 + castle_rank c = ck).
  { assert (I : In (4 + castle_rank c) [ck]).
    { apply (LQ_In _ _ _ _ Hk V4). rewrite A. unfold qking. cbn. rewrite color_eqb_refl. reflexivity. }
    destruct I as [<-|[]]. reflexivity. }
  pose proof (sr_eq _ _ _ Rf) as Ef. pose proof (sr_eq _ _ _ Rt) as Et.
  pose proof (sr_f _ _ _ Rf). pose proof (sr_f _ _ _ Rt). pose proof (sr_r _ _ _ Rf). pose proof (sr_r _ _ _ Rt).
  assert (F1 : kind_eqb k King = ((ff =? 4) && (fr =? Spec.home_rank c))).
  { destruct (Z.eqb_spec ff 4) as [E1|E1]; [destruct (Z.eqb_spec fr (Spec.home_rank c)) as [E2|E2]|]; cbn [andb].
    - assert (E : from = 4 + castle_rank c) by (rewrite (sr_eq _ _ _ Rf); lia).
      rewrite <- E in A. rewrite A in Hfrom. inversion Hfrom. reflexivity.
    - destruct k; try reflexivity. exfalso.
      assert (I : In from [ck]).
      { apply (LQ_In _ _ _ _ Hk (sr_valid _ _ _ Rf)). rewrite Hfrom. unfold qking. cbn. rewrite color_eqb_refl. reflexivity. }
      destruct I as [E|[]]. lia.
    - destruct k; try reflexivity. exfalso.
      assert (I : In from [ck]).
      { apply (LQ_In _ _ _ _ Hk (sr_valid _ _ _ Rf)). rewrite Hfrom. unfold qking. cbn. rewrite color_eqb_refl. reflexivity. }
      destruct I as [E|[]]. lia. }
  assert (N4 : 4 + castle_rank c <> to).
  { intros E. rewrite <- E, A in Hto. cbn in Hto. rewrite color_eqb_refl in Hto. discriminate. }
  assert (Nr : rf + castle_rank c <> to).
  { intros E. rewrite <- E, B in Hto. cbn in Hto. rewrite color_eqb_refl in Hto. discriminate. }
  rewrite F1.
  assert (F2 : (tf =? 4) && (tr =? Spec.home_rank c) = false) by (clear - N4 Et Ecr H0 H2 Hhr; lia).
  assert (F3 : (tf =? rf) && (tr =? Spec.home_rank c) = false) by (clear - Nr Et Ecr H0 H2 Hhr Hrf; lia).
  rewrite F2, F3, !orb_false_r.
  assert (F4 : ((ff =? rf) && (16 * fr =? castle_rank c)) = ((ff =? rf) && (fr =? Spec.home_rank c)))
    by (clear - Ecr; lia).
  rewrite F4. split; [reflexivity|]. intros T.
  repeat split; try assumption; clear - T Ef Ecr H H1 Hhr Hrf Hrf4; lia.
Qed.

Lemma keep_en : forall (flag : bool) b c k from to ff fr tf tr rf,
  0 <= rf < 8 -> rf <> 4 ->
  sqrep from ff fr -> sqrep to tf tr ->
  home_ok b (opp c) flag rf -> get b from = Pc c k -> get b to <> Pc (opp c) King ->
  (flag && negb ((tf =? rf) && (16 * tr =? castle_rank (opp c))) =
   flag && negb (Spec.sq_eqb (ff, fr) (4, Spec.home_rank (opp c)) || Spec.sq_eqb (tf, tr) (4, Spec.home_rank (opp c)))
        && negb (Spec.sq_eqb (ff, fr) (rf, Spec.home_rank (opp c)) || Spec.sq_eqb (tf, tr) (rf, Spec.home_rank (opp c))))
  /\ (flag && negb ((tf =? rf) && (16 * tr =? castle_rank (opp c))) = true ->
      4 + castle_rank (opp c) <> from /\ 4 + castle_rank (opp c) <> to /\
      rf + castle_rank (opp c) <> from /\ rf + castle_rank (opp c) <> to /\
      get b (4 + castle_rank (opp c)) = Pc (opp c) King /\ get b (rf + castle_rank (opp c)) = Pc (opp c) Rook).
Proof.
  intros flag b c k from to ff fr tf tr rf Hrf Hrf4 Rf Rt Hh Hfrom Hto.
  destruct (castle_home (opp c)) as [Ecr Hhr]. rewrite !sq_eqb_fr.
  destruct flag; [|split; [reflexivity|discriminate]]. cbn [andb].
  destruct (Hh eq_refl) as [A B].
  assert (N1 : 4 + castle_rank (opp c) <> from).
  { intros E. rewrite E, Hfrom in A. inversion A. destruct c; discriminate. }
  assert (N2 : rf + castle_rank (opp c) <> from).
  { intros E. rewrite E, Hfrom in B. inversion B. destruct c; discriminate. }
  assert (N3 : 4 + castle_rank (opp c) <> to).
  { intros E. rewrite E in A. contradiction. }
  pose proof (sr_eq _ _ _ Rf) as Ef. pose proof (sr_eq _ _ _ Rt) as Et.
  pose proof (sr_f _ _ _ Rf). pose proof (sr_f _ _ _ Rt). pose proof (sr_r _ _ _ Rf). pose proof (sr_r _ _ _ Rt).
  assert (F1 : (ff =? 4) && (fr =? Spec.home_rank (opp c)) = false) by (clear - N1 Ef Ecr H H1 Hhr; lia).
  assert (F2 : (ff =? rf) && (fr =? Spec.home_rank (opp c)) = false) by (clear - N2 Ef Ecr H H1 Hhr Hrf; lia).
  assert (F3 : (tf =? 4) && (tr =? Spec.home_rank (opp c)) = false) by (clear - N3 Et Ecr H0 H2 Hhr; lia).
  rewrite F1, F2, F3. cbn [orb negb andb].
  assert (F4 : ((tf =? rf) && (16 * tr =? castle_rank (opp c))) = ((tf =? rf) && (tr =? Spec.home_rank (opp c))))
    by (clear - Ecr; lia).
  rewrite F4. split; [reflexivity|]. intros T.
  repeat split; try assumption; clear - T Et Ecr H0 H2 Hhr Hrf Hrf4; lia.
Qed.


(* ====================================================================================================== *)
(* 9. Q on concrete cells                                                                                 *)
(* ====================================================================================================== *)

Lemma qpawn_own : forall c k, qpawn c (Pc c k) = kind_eqb Pawn k.
Proof. intros. unfold qpawn. cbn. rewrite color_eqb_refl. reflexivity. Qed.
Lemma qking_own : forall c k, qking c (Pc c k) = kind_eqb King k.
Proof. intros. unfold qking. cbn. rewrite color_eqb_refl. reflexivity. Qed.
Lemma qpiece_own : forall c k, qpiece c (Pc c k) = is_piece_kind k.
Proof. intros. unfold qpiece. rewrite color_eqb_refl. reflexivity. Qed.
Lemma qpawn_opp : forall c k, qpawn (opp c) (Pc c k) = false.
Proof. intros. unfold qpawn. cbn. rewrite color_eqb_opp'. reflexivity. Qed.
Lemma qking_opp : forall c k, qking (opp c) (Pc c k) = false.
Proof. intros. unfold qking. cbn. rewrite color_eqb_opp'. reflexivity. Qed.
Lemma qpiece_opp : forall c k, qpiece (opp c) (Pc c k) = false.
Proof. intros. unfold qpiece. rewrite color_eqb_opp'. reflexivity. Qed.
Lemma qpawn_opp' : forall c k, qpawn c (Pc (opp c) k) = false.
Proof. intros. unfold qpawn. cbn. rewrite color_eqb_opp. reflexivity. Qed.
Lemma qking_opp' : forall c k, qking c (Pc (opp c) k) = false.
Proof. intros. unfold qking. cbn. rewrite color_eqb_opp. reflexivity. Qed.
Lemma qpiece_opp' : forall c k, qpiece c (Pc (opp c) k) = false.
Proof. intros. unfold qpiece. rewrite color_eqb_opp. reflexivity. Qed.
Lemma qpawn_empty : forall c, qpawn c Empty = false. Proof. reflexivity. Qed.
Lemma qking_empty : forall c, qking c Empty = false. Proof. reflexivity. Qed.
Lemma qpiece_empty : forall c, qpiece c Empty = false. Proof. reflexivity. Qed.

Lemma q_notown : forall c x, is_col c x = false -> qpawn c x = false /\ qpiece c x = false /\ qking c x = false.
Proof.
  intros c [|c' k] H; [repeat split; reflexivity|]. cbn in H. unfold qpawn, qpiece, qking, is_pc. rewrite H.
  repeat split; reflexivity.
Qed.

Ltac qsimp :=
  rewrite ?qpawn_own, ?qking_own, ?qpiece_own, ?qpawn_opp, ?qking_opp, ?qpiece_opp, ?qpawn_opp', ?qking_opp', ?qpiece_opp',
          ?qpawn_empty, ?qking_empty, ?qpiece_empty.


(* ---------- the abstraction commutes with a board write ---------- *)

Lemma abs_set : forall b s f r v, sqrep s f r -> length b = 128%nat ->
  forall x, abs_board (set b s v) x = Spec.set (abs_board b) (f, r) (abs_cell v) x.
Proof.
  intros b s f r v R Hl x. destruct (validb_range s (sr_valid _ _ _ R)) as [Hs _].
  pose proof (sr_eq _ _ _ R) as E. pose proof (sr_f _ _ _ R) as Hf. pose proof (sr_r _ _ _ R) as Hr.
  unfold Spec.set. destruct (Spec.on x) eqn:On.
  - destruct x as [xf xr]. apply on_inv in On. cbn [fst snd] in On. rewrite !abs_fr by lia. rewrite sq_eqb_fr.
    rewrite get_set_if by lia.
    assert (E' : (16 * xr + xf =? s) = ((xf =? f) && (xr =? r))) by (clear - E On Hf Hr; lia).
    rewrite E'. destruct ((xf =? f) && (xr =? r)); reflexivity.
  - rewrite !abs_off by exact On. destruct x as [xf xr]. rewrite sq_eqb_fr.
    assert (E' : (xf =? f) && (xr =? r) = false) by (unfold Spec.on in On; cbn [fst snd] in On; clear - On Hf Hr; lia).
    rewrite E'. reflexivity.
Qed.

Lemma apply_brd : forall a m, Spec.brd (Spec.apply a m) =
  let b := Spec.brd a in let c := Spec.turn a in let s := Spec.mfrom m in let t := Spec.mto m in
  let df := fst t - fst s in
  let is_pawn := Spec.has b s c Pawn in let is_king := Spec.has b s c King in
  let is_ep := is_pawn && negb (df =? 0) && Spec.empty b t in
  let placed := match Spec.promo m with Some k => Some (c, k) | None => b s end in
  let b1 := Spec.set (Spec.set b s None) t placed in
  let b2 := if is_ep then Spec.set b1 (fst t, snd s) None else b1 in
  if is_king && (df =? 2) then Spec.set (Spec.set b2 (7, snd s) None) (5, snd s) (Some (c, Rook))
  else if is_king && (df =? -2) then Spec.set (Spec.set b2 (0, snd s) None) (3, snd s) (Some (c, Rook))
  else b2.
Proof. reflexivity. Qed.

Lemma kill_of_index : forall why l a i, index_of a l = Some i -> kill why l a = Ok (swap_remove l i).
Proof. intros why l a i H. unfold kill. rewrite H. reflexivity. Qed.


Lemma kind_cases : forall k, k = Pawn \/ k = King \/ is_piece_kind k = true.
Proof. destruct k; cbn; tauto. Qed.
Lemma piece_not_pawn : forall k, is_piece_kind k = true -> kind_eqb Pawn k = false.
Proof. destruct k; cbn; congruence. Qed.
Lemma piece_not_king : forall k, is_piece_kind k = true -> kind_eqb King k = false.
Proof. destruct k; cbn; congruence. Qed.
Lemma piece_not_king' : forall k, is_piece_kind k = true -> kind_eqb k King = false.
Proof. destruct k; cbn; congruence. Qed.

(* ====================================================================================================== *)
(* 10. the common setting of all move classes                                                             *)
(* ====================================================================================================== *)

Section Move.
  Variable p : pos.
  Variables from to : Z.
  Variable promo : option kind.
  Variable mepv : Z.
  Local Notation m := {| mfrom := from; mto := to; mpromo := promo; mep := mepv |}.
  Local Notation c := (cur_color p).
  Local Notation e := (opp (cur_color p)).
  Local Notation b := (board p).
  Hypothesis Hwf : wf p = true.
  Hypothesis Hply : ply p + 1 < 32767.
  Variables ff fr tf tr : Z.
  Hypothesis Rf : sqrep from ff fr.
  Hypothesis Rt : sqrep to tf tr.
  Variable k : kind.
  Hypothesis Hfrom : get b from = Pc c k.
  Hypothesis Hto : is_col c (get b to) = false.
  Hypothesis Hnk : get b to <> Pc e King.

  Let W : wf_facts p := wf_facts_of p Hwf.
  Let Hlen : length b = 128%nat := wl_len p W.

  Lemma from_range : 0 <= from < 128. Proof. apply (validb_range from (sr_valid _ _ _ Rf)). Qed.
  Lemma to_range : 0 <= to < 128. Proof. apply (validb_range to (sr_valid _ _ _ Rt)). Qed.
  Lemma from_ne_to : from <> to.
  Proof. intros E. rewrite <- E, Hfrom in Hto. cbn in Hto. rewrite color_eqb_refl in Hto. discriminate. Qed.
  Lemma from_ne_to_b : (from =? to) = false. Proof. apply Z.eqb_neq. exact from_ne_to. Qed.
  Lemma to_ne_from_b : (to =? from) = false. Proof. apply Z.eqb_neq. intro E. symmetry in E. exact (from_ne_to E). Qed.

  Lemma Hto_pawn : qpawn c (get b to) = false. Proof. apply (q_notown _ _ Hto). Qed.
  Lemma Hto_piece : qpiece c (get b to) = false. Proof. apply (q_notown _ _ Hto). Qed.
  Lemma Hto_king : qking c (get b to) = false. Proof. apply (q_notown _ _ Hto). Qed.

  Lemma from_in_list : match k with Pawn => In from (cur_pawns p) | King => from = cur_king p | _ => In from (cur_pieces p) end.
  Proof.
    destruct (wl_cur p W) as [Hpc [Hpw Hkg]]. pose proof (sr_valid _ _ _ Rf) as Hv.
    destruct k.
    - apply (LQ_In _ _ _ _ Hpw Hv). rewrite Hfrom. qsimp. reflexivity.
    - apply (LQ_In _ _ _ _ Hpc Hv). rewrite Hfrom. qsimp. reflexivity.
    - apply (LQ_In _ _ _ _ Hpc Hv). rewrite Hfrom. qsimp. reflexivity.
    - apply (LQ_In _ _ _ _ Hpc Hv). rewrite Hfrom. qsimp. reflexivity.
    - apply (LQ_In _ _ _ _ Hpc Hv). rewrite Hfrom. qsimp. reflexivity.
    - assert (I : In from [cur_king p]) by (apply (LQ_In _ _ _ _ Hkg Hv); rewrite Hfrom; qsimp; reflexivity).
      destruct I as [<-|[]]. reflexivity.
  Qed.

  Lemma king_cell : get b (cur_king p) = Pc c King.
  Proof.
    destruct (wl_cur p W) as [_ [_ Hkg]].
    assert (Q : qking c (get b (cur_king p)) = true) by (apply (LQ_Q _ _ _ _ Hkg); left; reflexivity).
    unfold qking, is_pc in Q. destruct (get b (cur_king p)) as [|c' k']; [discriminate|].
    apply andb_prop in Q as [Q1 Q2]. apply color_eqb_eq in Q1. apply kind_eqb_eq in Q2. congruence.
  Qed.

  (* ---------------------------------------------------------------------------------------------------- *)
  (* assembling the three parts of the statement from the ingredients a move class provides               *)
  (* ---------------------------------------------------------------------------------------------------- *)

  Lemma rK_cur : Spec.rK (abs p) c = if wturn p then wK p else bK p.
  Proof. unfold abs, cur_color. destruct (wturn p); reflexivity. Qed.
  Lemma rQ_cur : Spec.rQ (abs p) c = if wturn p then wQ p else bQ p.
  Proof. unfold abs, cur_color. destruct (wturn p); reflexivity. Qed.
  Lemma rK_en : Spec.rK (abs p) e = if wturn p then bK p else wK p.
  Proof. unfold abs, cur_color. destruct (wturn p); reflexivity. Qed.
  Lemma rQ_en : Spec.rQ (abs p) e = if wturn p then bQ p else wQ p.
  Proof. unfold abs, cur_color. destruct (wturn p); reflexivity. Qed.

  Lemma finish : forall b4 cp1 cw1 ck1 ep1 ew2,
    make p m = Ok (mk_pos p b4 cp1 cw1 ck1 ep1 ew2 (fcK p m (kind_eqb k King)) (fcQ p m (kind_eqb k King)) (feK p m) (feQ p m) mepv,
                   negb (is_under_check b4 ep1 ew2 (en_king p) ck1)) ->
    length b4 = 128%nat -> offb b4 ->
    LO b4 c cp1 cw1 ck1 -> LO b4 e ep1 ew2 (en_king p) ->
    (length cw1 <= pawnCap)%nat -> (length ew2 <= pawnCap)%nat ->
    (length cp1 + length cw1 <= pieceCap)%nat -> (length ep1 + length ew2 <= pieceCap)%nat ->
    (forall s, In s cw1 -> rankof s <> 0 /\ rankof s <> 112) ->
    (forall s, In s ew2 -> rankof s <> 0 /\ rankof s <> 112) ->
    (forall z, 0 <= z -> z <> from -> z <> to ->
       (get b z = Pc e King \/ get b z = Pc e Rook \/ (k <> King /\ (get b z = Pc c King \/ get b z = Pc c Rook))) ->
       get b4 z = get b z) ->
    ep_good p b4 mepv ->
    (if onb mepv then Some (coords mepv) else None) = Spec.ep (Spec.apply (abs p) (absm m)) ->
    (forall x, abs_board b4 x = Spec.brd (Spec.apply (abs p) (absm m)) x) ->
    exists p', make p m = Ok (p', negb (Spec.in_check (Spec.brd (Spec.apply (abs p) (absm m))) c))
       /\ wf p' = true /\ pos_equiv (abs p') (Spec.apply (abs p) (absm m)).
  Proof.
    intros b4 cp1 cw1 ck1 ep1 ew2 Hmk Hl4 Ho4 Lc Le C1 C2 C3 C4 R1 R2 Hfr Hepg Hepe Hbe.
    destruct (wl_cur p W) as [_ [_ Hkg]].
    assert (A7 : 0 <= 7 < 8) by (clear; lia). assert (B7 : 7 <> 4) by (clear; lia).
    assert (A0 : 0 <= 0 < 8) by (clear; lia). assert (B0 : 0 <> 4) by (clear; lia).
    destruct (keep_own _ _ _ _ _ _ _ _ _ _ _ 7 A7 B7 Rf Rt Hkg (wl_cK p W) Hfrom Hto) as [K1 K2].
    destruct (keep_own _ _ _ _ _ _ _ _ _ _ _ 0 A0 B0 Rf Rt Hkg (wl_cQ p W) Hfrom Hto) as [Q1 Q2].
    destruct (keep_en _ _ _ _ _ _ _ _ _ _ 7 A7 B7 Rf Rt (wl_eK p W) Hfrom Hnk) as [K3 K4].
    destruct (keep_en _ _ _ _ _ _ _ _ _ _ 0 A0 B0 Rf Rt (wl_eQ p W) Hfrom Hnk) as [Q3 Q4].
    assert (EK : fcK p m (kind_eqb k King) =
                 (if wturn p then wK p else bK p) && negb (kind_eqb k King) && negb ((ff =? 7) && (16 * fr =? castle_rank c))).
    { unfold fcK. cbn [mfrom]. rewrite (sr_file _ _ _ Rf), (sr_rank _ _ _ Rf). reflexivity. }
    assert (EQ : fcQ p m (kind_eqb k King) =
                 (if wturn p then wQ p else bQ p) && negb (kind_eqb k King) && negb ((ff =? 0) && (16 * fr =? castle_rank c))).
    { unfold fcQ. cbn [mfrom]. rewrite (sr_file _ _ _ Rf), (sr_rank _ _ _ Rf). reflexivity. }
    assert (EeK : feK p m = (if wturn p then bK p else wK p) && negb ((tf =? 7) && (16 * tr =? castle_rank e))).
    { unfold feK. cbn [mto]. rewrite (sr_file _ _ _ Rt), (sr_rank _ _ _ Rt). reflexivity. }
    assert (EeQ : feQ p m = (if wturn p then bQ p else wQ p) && negb ((tf =? 0) && (16 * tr =? castle_rank e))).
    { unfold feQ. cbn [mto]. rewrite (sr_file _ _ _ Rt), (sr_rank _ _ _ Rt). reflexivity. }
    eexists. split; [|split].
    - rewrite Hmk. f_equal. f_equal. f_equal.
      rewrite (in_check_LO _ _ _ _ _ _ _ _ Lc Le). apply in_check_ext. exact Hbe.
    - assert (P1 : forall f col, 0 <= f -> 0 <= f + castle_rank col) by (clear; intros f [|] Hf0; cbn [castle_rank]; lia).
      apply wf_mk_pos; try assumption.
      + intros T. rewrite EK in T. destruct (K2 T) as [N1 [N2 [N3 [N4 [A B]]]]].
        assert (NK : k <> King) by (intros ->; rewrite andb_false_r in T; discriminate).
        rewrite !Hfr; [tauto|apply P1; clear; lia|assumption|assumption|tauto|apply P1; clear; lia|assumption|assumption|tauto].
      + intros T. rewrite EQ in T. destruct (Q2 T) as [N1 [N2 [N3 [N4 [A B]]]]].
        assert (NK : k <> King) by (intros ->; rewrite andb_false_r in T; discriminate).
        rewrite !Hfr; [tauto|apply P1; clear; lia|assumption|assumption|tauto|apply P1; clear; lia|assumption|assumption|tauto].
      + intros T. rewrite EeK in T. destruct (K4 T) as [N1 [N2 [N3 [N4 [A B]]]]].
        rewrite !Hfr; [tauto|apply P1; clear; lia|assumption|assumption|tauto|apply P1; clear; lia|assumption|assumption|tauto].
      + intros T. rewrite EeQ in T. destruct (Q4 T) as [N1 [N2 [N3 [N4 [A B]]]]].
        rewrite !Hfr; [tauto|apply P1; clear; lia|assumption|assumption|tauto|apply P1; clear; lia|assumption|assumption|tauto].
      + exact (wl_ply p W).
    - apply equiv_mk_pos; try assumption.
      + rewrite EK, K1, apply_rK, rK_cur. cbn [absm Spec.mfrom Spec.mto mfrom mto].
        rewrite (sr_coords _ _ _ Rf), (sr_coords _ _ _ Rt). reflexivity.
      + rewrite EQ, Q1, apply_rQ, rQ_cur. cbn [absm Spec.mfrom Spec.mto mfrom mto].
        rewrite (sr_coords _ _ _ Rf), (sr_coords _ _ _ Rt). reflexivity.
      + rewrite EeK, K3, apply_rK, rK_en. cbn [absm Spec.mfrom Spec.mto mfrom mto].
        rewrite (sr_coords _ _ _ Rf), (sr_coords _ _ _ Rt). reflexivity.
      + rewrite EeQ, Q3, apply_rQ, rQ_en. cbn [absm Spec.mfrom Spec.mto mfrom mto].
        rewrite (sr_coords _ _ _ Rf), (sr_coords _ _ _ Rt). reflexivity.
      + exact (wl_ply p W).
  Qed.

  (* ---------------------------------------------------------------------------------------------------- *)
  (* facts on the specification side                                                                      *)
  (* ---------------------------------------------------------------------------------------------------- *)

  Lemma B_from : abs_board b (ff, fr) = Some (c, k).
  Proof. rewrite abs_fr by apply Rf. rewrite <- (sr_eq _ _ _ Rf), Hfrom. reflexivity. Qed.
  Lemma has_from : forall k', Spec.has (abs_board b) (ff, fr) c k' = kind_eqb k' k.
  Proof. intros. unfold Spec.has. rewrite B_from, color_eqb_refl. reflexivity. Qed.
  Lemma empty_to : Spec.empty (abs_board b) (tf, tr) = is_empty (get b to).
  Proof. rewrite empty_fr by apply Rt. rewrite <- (sr_eq _ _ _ Rt). reflexivity. Qed.

  (* ---------------------------------------------------------------------------------------------------- *)
  (* class "plain": one piece goes from [from] to [to], possibly capturing there, possibly promoting       *)
  (* ---------------------------------------------------------------------------------------------------- *)

  Ltac kfix :=
    repeat match goal with
    | E : k = _ |- _ => progress (rewrite ?E)
    | E : is_piece_kind ?x = true |- _ => progress (rewrite ?E, ?(piece_not_pawn x E), ?(piece_not_king x E))
    end;
    cbn [kind_eqb is_piece_kind].

  Ltac prof :=
    let s := fresh "s" in let Hs := fresh "Hs" in let Hs0 := fresh "Hs0" in
    intros s Hs; destruct (validb_range s Hs) as [Hs0 _]; pose proof from_range; pose proof to_range;
    rewrite !get_set_if by (rewrite ?set_length; first [exact Hlen | exact from_range | exact to_range | exact (proj1 Hs0)]);
    destruct (Z.eqb_spec s from) as [->|?];
      [rewrite ?from_ne_to_b, ?Z.eqb_refl
      |destruct (Z.eqb_spec s to) as [->|?]; [rewrite ?Z.eqb_refl|]];
    rewrite ?Hfrom; try match goal with Ht : get b to = _ |- _ => rewrite ?Ht end;
    qsimp; kfix; rewrite ?Hto_pawn, ?Hto_piece, ?Hto_king; try reflexivity.

  Section Plain.
    Variable kx : kind.
    Hypothesis Hkx : (promo = None /\ kx = k) \/ (k = Pawn /\ promo = Some kx /\ is_piece_kind kx = true).
    Hypothesis Hnoc : k = King -> tf - ff <> 2 /\ tf - ff <> -2.
    Hypothesis Hrank : k = Pawn -> promo = None -> tr <> 0 /\ tr <> 7.
    Local Notation b4 := (set (set b to (Pc c kx)) from Empty).

    Lemma mover_plain : exists cp1 cw1 ck1,
      ph1 p m = Ok (cp1, cw1, ck1, b, kind_eqb k King) /\ LO b4 c cp1 cw1 ck1 /\
      (length cw1 <= pawnCap)%nat /\ (length cp1 + length cw1 <= pieceCap)%nat /\
      (forall s, In s cw1 -> rankof s <> 0 /\ rankof s <> 112).
    Proof.
      destruct (wl_cur p W) as [Hpc [Hpw Hkg]]. pose proof from_in_list as Hin.
      pose proof (wl_cpw p W) as C1. pose proof (wl_cpc p W) as C2. pose proof (wl_crk p W) as R1.
      pose proof (sr_valid _ _ _ Rf) as Vf. pose proof (sr_valid _ _ _ Rt) as Vt.
      destruct Hkx as [[Hp Ekx]|[Ek [Hp Hpk]]].
      - (* no promotion *)
        rewrite Ekx. clear Ekx.
        destruct (kind_cases k) as [Ek|[Ek|Hpk]].
        + (* pawn *)
          rewrite Ek in Hin.
          exists (cur_pieces p), (replace_first (cur_pawns p) from to), (cur_king p). split; [|split; [|split; [|split]]].
          * unfold ph1. cbn [mfrom mto mpromo]. rewrite Hfrom, Hp, Ek. cbn [is_pc kind_eqb]. rewrite color_eqb_refl. reflexivity.
          * split; [|split].
            -- apply (LQ_frame _ _ _ _ Hpc). prof.
            -- apply (LQ_replace _ _ _ _ _ _ Hpw Vf Vt); [rewrite Hfrom, Ek; qsimp; reflexivity|exact Hto_pawn|]. prof.
            -- apply (LQ_frame _ _ _ _ Hkg). prof.
          * rewrite replace_first_length. exact C1.
          * rewrite replace_first_length. exact C2.
          * intros s Hs. apply (replace_first_In _ _ _ _ (proj1 Hpw) Hin) in Hs. destruct Hs as [[Hs _]| ->]; [apply R1; exact Hs|].
            rewrite (sr_rank _ _ _ Rt). destruct (Hrank Ek Hp). pose proof (sr_r _ _ _ Rt). clear - H H0 H1. lia.
        + (* king *)
          rewrite Ek in Hin.
          exists (cur_pieces p), (cur_pawns p), to. split; [|split; [|split; [|split]]].
          * unfold ph1. cbn [mfrom mto mpromo]. rewrite Hfrom, Ek. cbn [is_pc kind_eqb]. rewrite andb_false_r.
            rewrite <- Hin, Z.eqb_refl, (sr_file _ _ _ Rf), (sr_file _ _ _ Rt).
            destruct (Hnoc Ek) as [N1 N2].
            destruct (Z.eqb_spec ff 4) as [E4|_]; [|reflexivity].
            destruct (Z.eqb_spec tf 2) as [E2|_]; [exfalso; clear - E4 E2 N2; lia|].
            destruct (Z.eqb_spec tf 6) as [E6|_]; [exfalso; clear - E4 E6 N1; lia|]. reflexivity.
          * split; [|split].
            -- apply (LQ_frame _ _ _ _ Hpc). prof.
            -- apply (LQ_frame _ _ _ _ Hpw). prof.
            -- rewrite <- Hin in Hkg. apply (LQ_king _ _ _ _ _ Hkg Vt); [rewrite Hfrom, Ek; qsimp; reflexivity|exact Hto_king|]. prof.
          * exact C1.
          * exact C2.
          * exact R1.
        + (* knight, bishop, rook, queen *)
          assert (Hin' : In from (cur_pieces p)) by (destruct k; try discriminate Hpk; exact Hin).
          exists (replace_first (cur_pieces p) from to), (cur_pawns p), (cur_king p). split; [|split; [|split; [|split]]].
          * unfold ph1. cbn [mfrom mto mpromo]. rewrite Hfrom. cbn [is_pc]. rewrite (piece_not_pawn _ Hpk), (piece_not_king' _ Hpk), andb_false_r.
            assert (N : (from =? cur_king p) = false).
            { apply Z.eqb_neq. intros E. pose proof king_cell as KC. rewrite <- E, Hfrom in KC. inversion KC as [KE].
              rewrite KE in Hpk. discriminate. }
            rewrite N. reflexivity.
          * split; [|split].
            -- apply (LQ_replace _ _ _ _ _ _ Hpc Vf Vt); [rewrite Hfrom; qsimp; exact Hpk|exact Hto_piece|]. prof.
            -- apply (LQ_frame _ _ _ _ Hpw). prof.
            -- apply (LQ_frame _ _ _ _ Hkg). prof.
          * exact C1.
          * rewrite replace_first_length. exact C2.
          * exact R1.
      - (* promotion *)
        rewrite Ek in Hin. destruct (index_of_In _ _ Hin) as [i Hi].
        assert (Lp : (length (cur_pieces p) < pieceCap)%nat).
        { destruct (cur_pawns p); [destruct Hin|]. cbn [length] in C2. clear - C2. lia. }
        exists (cur_pieces p ++ [to]), (swap_remove (cur_pawns p) i), (cur_king p). split; [|split; [|split; [|split]]].
        + unfold ph1. cbn [mfrom mto mpromo]. rewrite Hfrom, Hp, Ek. cbn [is_pc kind_eqb]. rewrite color_eqb_refl. cbn [andb].
          rewrite Hi, (append_cap_Ok _ _ _ _ Lp). reflexivity.
        + split; [|split].
          * apply (LQ_append _ _ _ _ _ Hpc Vt Hto_piece). prof.
          * apply (LQ_kill _ _ _ _ _ _ P_KILL_PAWN Hpw (kill_of_index _ _ _ _ Hi)). prof.
          * apply (LQ_frame _ _ _ _ Hkg). prof.
        + pose proof (kill_length _ _ _ _ (kill_of_index P_KILL_PAWN _ _ _ Hi)) as KL. clear - KL C1. lia.
        + pose proof (kill_length _ _ _ _ (kill_of_index P_KILL_PAWN _ _ _ Hi)) as KL. rewrite app_length. cbn [length].
          clear - KL C2. lia.
        + intros s Hs. apply (kill_In _ _ _ _ s (proj1 Hpw) (kill_of_index P_KILL_PAWN _ _ _ Hi)) in Hs. apply R1. tauto.
    Qed.


    Lemma enemy_plain : exists ep1 ew1,
      ph3 p m b = Ok (ep1, ew1) /\ LO b4 e ep1 ew1 (en_king p) /\
      (length ew1 <= pawnCap)%nat /\ (length ep1 + length ew1 <= pieceCap)%nat /\
      (forall s, In s ew1 -> In s (en_pawns p)).
    Proof.
      destruct (wl_en p W) as [Hpc [Hpw Hkg]].
      pose proof (wl_epw p W) as C1. pose proof (wl_epc p W) as C2.
      pose proof (sr_valid _ _ _ Rf) as Vf. pose proof (sr_valid _ _ _ Rt) as Vt.
      destruct (target_cases c (get b to) Hto Hnk) as [Ht|[Ht|[k' [Hk' Ht]]]].
      - exists (en_pieces p), (en_pawns p). split; [|split; [|split; [|split]]]; try assumption.
        + unfold ph3. cbn [mto]. rewrite Ht. reflexivity.
        + split; [|split].
          * apply (LQ_frame _ _ _ _ Hpc). prof.
          * apply (LQ_frame _ _ _ _ Hpw). prof.
          * apply (LQ_frame _ _ _ _ Hkg). prof.
        + tauto.
      - assert (Hin : In to (en_pawns p)) by (apply (LQ_In _ _ _ _ Hpw Vt); rewrite Ht; qsimp; reflexivity).
        destruct (kill_Ok P_KILL_PAWN _ _ Hin) as [l Hl].
        exists (en_pieces p), l. split; [|split; [|split; [|split]]].
        + unfold ph3. cbn [mto]. rewrite Ht. cbn [is_pc kind_eqb]. rewrite color_eqb_refl. cbn [andb]. rewrite Hl. reflexivity.
        + split; [|split].
          * apply (LQ_frame _ _ _ _ Hpc). prof.
          * apply (LQ_kill _ _ _ _ _ _ _ Hpw Hl). prof.
          * apply (LQ_frame _ _ _ _ Hkg). prof.
        + pose proof (kill_length _ _ _ _ Hl) as KL. clear - KL C1. lia.
        + pose proof (kill_length _ _ _ _ Hl) as KL. clear - KL C2. lia.
        + intros s Hs. apply (kill_In _ _ _ _ s (proj1 Hpw) Hl) in Hs. tauto.
      - assert (Hin : In to (en_pieces p)) by (apply (LQ_In _ _ _ _ Hpc Vt); rewrite Ht; qsimp; exact Hk').
        destruct (kill_Ok P_KILL_PIECE _ _ Hin) as [l Hl].
        exists l, (en_pawns p). split; [|split; [|split; [|split]]].
        + unfold ph3. cbn [mto]. rewrite Ht. cbn [is_pc]. rewrite (piece_not_pawn _ Hk'), (piece_not_king _ Hk'), !andb_false_r.
          rewrite Hl. destruct k'; try discriminate Hk'; reflexivity.
        + split; [|split].
          * apply (LQ_kill _ _ _ _ _ _ _ Hpc Hl). prof.
          * apply (LQ_frame _ _ _ _ Hpw). prof.
          * apply (LQ_frame _ _ _ _ Hkg). prof.
        + exact C1.
        + pose proof (kill_length _ _ _ _ Hl) as KL. clear - KL C2. lia.
        + tauto.
    Qed.

    Lemma ph4_plain : forall ew1, (k = Pawn -> ep p <> to) -> ph4 p m b ew1 = Ok (set b to (Pc c kx), ew1).
    Proof.
      intros ew1 Hne. unfold ph4. cbn [mfrom mto mpromo]. pose proof from_range. pose proof to_range.
      destruct Hkx as [[Hp Ekx]|[Ek [Hp Hpk]]]; rewrite Hp; [|reflexivity].
      cbv zeta. rewrite get_set_if by first [exact Hlen | exact to_range | apply from_range].
      rewrite from_ne_to_b, Hfrom, Ekx.
      destruct (Z.eqb_spec (ep p) to) as [E|_]; [|reflexivity].
      assert (NP : kind_eqb Pawn k = false) by (destruct k; try reflexivity; exfalso; apply Hne; [reflexivity|exact E]).
      cbn [is_pc]. rewrite NP, andb_false_r. reflexivity.
    Qed.

    Lemma spec_brd_plain : (k = Pawn -> tf <> ff -> get b to <> Empty) ->
      forall x, Spec.brd (Spec.apply (abs p) (absm m)) x =
                Spec.set (Spec.set (abs_board b) (ff, fr) None) (tf, tr) (Some (c, kx)) x.
    Proof.
      intros Hne x. rewrite apply_brd. cbv zeta.
      cbn [abs absm Spec.brd Spec.turn Spec.mfrom Spec.mto Spec.promo mfrom mto mpromo].
      rewrite (sr_coords _ _ _ Rf), (sr_coords _ _ _ Rt). cbn [fst snd].
      rewrite !has_from, empty_to, B_from.
      assert (E1 : kind_eqb Pawn k && negb (tf - ff =? 0) && is_empty (get b to) = false).
      { destruct (kind_eqb Pawn k) eqn:EP; [|reflexivity]. apply kind_eqb_eq in EP. symmetry in EP.
        destruct (Z.eqb_spec (tf - ff) 0) as [|N0]; [reflexivity|]. cbn [negb andb].
        assert (N : tf <> ff) by (clear - N0; lia). specialize (Hne EP N). destruct (get b to); [contradiction|reflexivity]. }
      assert (E2 : kind_eqb King k && (tf - ff =? 2) = false).
      { destruct (kind_eqb King k) eqn:EK; [|reflexivity]. apply kind_eqb_eq in EK. symmetry in EK.
        destruct (Hnoc EK) as [N _]. apply Z.eqb_neq in N. rewrite N. reflexivity. }
      assert (E3 : kind_eqb King k && (tf - ff =? -2) = false).
      { destruct (kind_eqb King k) eqn:EK; [|reflexivity]. apply kind_eqb_eq in EK. symmetry in EK.
        destruct (Hnoc EK) as [_ N]. apply Z.eqb_neq in N. rewrite N. reflexivity. }
      rewrite E1, E2, E3.
      assert (E4 : match promo with Some k0 => Some (c, k0) | None => Some (c, k) end = Some (c, kx)).
      { destruct Hkx as [[-> ->]|[_ [-> _]]]; reflexivity. }
      rewrite E4. reflexivity.
    Qed.

    Lemma board_plain : forall x, abs_board b4 x = Spec.set (Spec.set (abs_board b) (ff, fr) None) (tf, tr) (Some (c, kx)) x.
    Proof.
      intros x. rewrite (abs_set _ _ _ _ _ Rf) by (rewrite set_length; exact Hlen). unfold Spec.set at 1.
      rewrite (abs_set _ _ _ _ _ Rt Hlen). unfold Spec.set. destruct x as [xf xr]. rewrite !sq_eqb_fr. cbn [abs_cell].
      pose proof from_ne_to as N. pose proof (sr_eq _ _ _ Rf) as E1. pose proof (sr_eq _ _ _ Rt) as E2.
      destruct (Z.eqb_spec xf ff) as [A1|A1], (Z.eqb_spec xr fr) as [A2|A2], (Z.eqb_spec xf tf) as [A3|A3],
               (Z.eqb_spec xr tr) as [A4|A4]; cbn [andb]; try reflexivity.
      exfalso. clear - N E1 E2 A1 A2 A3 A4. lia.
    Qed.

    Theorem plain_case :
      (k = Pawn -> tf <> ff -> get b to <> Empty) -> (k = Pawn -> ep p <> to) ->
      ep_good p b4 mepv ->
      (if onb mepv then Some (coords mepv) else None) = Spec.ep (Spec.apply (abs p) (absm m)) ->
      exists p', make p m = Ok (p', negb (Spec.in_check (Spec.brd (Spec.apply (abs p) (absm m))) c))
         /\ wf p' = true /\ pos_equiv (abs p') (Spec.apply (abs p) (absm m)).
    Proof.
      intros Hne1 Hne2 Hepg Hepe.
      destruct mover_plain as [cp1 [cw1 [ck1 [H1 [Lc [C1 [C2 R1]]]]]]].
      destruct enemy_plain as [ep1 [ew1 [H3 [Le [C3 [C4 R2]]]]]].
      pose proof (ph4_plain ew1 Hne2) as H4.
      pose proof (make_run _ _ _ _ _ _ _ _ _ _ _ H1 H3 H4) as Hmk. cbn [mfrom mep] in Hmk.
      pose proof (sr_valid _ _ _ Rf) as Vf. pose proof (sr_valid _ _ _ Rt) as Vt.
      apply (finish b4 cp1 cw1 ck1 ep1 ew1); try assumption.
      - rewrite !set_length. exact Hlen.
      - apply offb_set; [rewrite set_length; exact Hlen| |exact Vf]. apply offb_set; [exact Hlen|exact (wl_off p W)|exact Vt].
      - intros s Hs. apply (wl_erk p W). apply R2. exact Hs.
      - intros z Hz N1 N2 _. pose proof from_range. pose proof to_range.
        rewrite !get_set_if by (rewrite ?set_length; first [exact Hlen | exact from_range | exact to_range | exact Hz]).
        apply Z.eqb_neq in N1, N2. rewrite N1, N2. reflexivity.
      - intros x. rewrite spec_brd_plain by exact Hne1. apply board_plain.
    Qed.

  End Plain.

  (* ---------------------------------------------------------------------------------------------------- *)
  (* the en-passant field when no double push happens                                                     *)
  (* ---------------------------------------------------------------------------------------------------- *)

  Lemma mep_cases : mep_of p from to =
    if kind_eqb Pawn k && ((to - from =? 32) || (from - to =? 32)) then (from + to) / 2 else INVALID.
  Proof. unfold mep_of. rewrite Hfrom. cbn [is_pc]. rewrite color_eqb_refl. reflexivity. Qed.

  Lemma ep_none : forall b4, kind_eqb Pawn k && (Z.abs (tr - fr) =? 2) = false -> mepv = INVALID ->
    ep_good p b4 mepv /\
    (if onb mepv then Some (coords mepv) else None) = Spec.ep (Spec.apply (abs p) (absm m)).
  Proof.
    intros b4 H ->. split; [left; reflexivity|]. rewrite apply_ep.
    cbn [abs absm Spec.brd Spec.turn Spec.mfrom Spec.mto mfrom mto].
    rewrite (sr_coords _ _ _ Rf), (sr_coords _ _ _ Rt). cbn [fst snd]. rewrite has_from, H. reflexivity.
  Qed.

  Lemma fwd_cur : Spec.fwd c = if wturn p then 1 else -1.
  Proof. unfold cur_color. destruct (wturn p); reflexivity. Qed.

  (* ---------------------------------------------------------------------------------------------------- *)
  (* class "en passant"                                                                                   *)
  (* ---------------------------------------------------------------------------------------------------- *)

  Section EnPassant.
    Hypothesis Hk : k = Pawn.
    Hypothesis Hp : promo = None.
    Hypothesis Hepto : ep p = to.
    Hypothesis Hte : get b to = Empty.
    Hypothesis Hdr : tr = fr + Spec.fwd c.
    Hypothesis Hdf : tf <> ff.
    Local Notation ks := (16 * fr + tf).
    Local Notation b4 := (set (set (set b to (Pc c Pawn)) ks Empty) from Empty).

    Lemma Rk : sqrep ks tf fr.
    Proof. apply sqrep_of_fr; [apply Rt|apply Rf]. Qed.

    Lemma Hks : get b ks = Pc e Pawn.
    Proof.
      destruct (wl_ep p W) as [E|[V [_ [G _]]]].
      - exfalso. pose proof (sr_valid _ _ _ Rt) as V. rewrite <- Hepto, E in V. vm_compute in V. discriminate.
      - cbv zeta in G. rewrite <- G. f_equal. rewrite Hepto, (sr_eq _ _ _ Rt), Hdr, fwd_cur.
        destruct (wturn p); lia.
    Qed.

    Lemma ks_ne : from <> ks /\ to <> ks.
    Proof.
      pose proof (sr_eq _ _ _ Rf). pose proof (sr_eq _ _ _ Rt). pose proof fwd_cur as F.
      assert (Spec.fwd c = 1 \/ Spec.fwd c = -1) by (rewrite F; destruct (wturn p); tauto).
      clear F. lia.
    Qed.

    Ltac prof_ep :=
      let s := fresh "s" in let Hs := fresh "Hs" in let Hs0 := fresh "Hs0" in
      intros s Hs; destruct (validb_range s Hs) as [Hs0 _];
      rewrite !get_set_if by (rewrite ?set_length; first [exact Hlen | assumption | exact (proj1 Hs0)]);
      destruct (Z.eqb_spec s from) as [E1|E1]; destruct (Z.eqb_spec s ks) as [E2|E2]; destruct (Z.eqb_spec s to) as [E3|E3];
      try (exfalso; congruence); try subst s;
      rewrite ?Hfrom, ?Hks, ?Hte, ?Hk; qsimp; cbn [kind_eqb is_piece_kind]; try reflexivity.

    Theorem ep_case :
      ep_good p b4 mepv ->
      (if onb mepv then Some (coords mepv) else None) = Spec.ep (Spec.apply (abs p) (absm m)) ->
      exists p', make p m = Ok (p', negb (Spec.in_check (Spec.brd (Spec.apply (abs p) (absm m))) c))
         /\ wf p' = true /\ pos_equiv (abs p') (Spec.apply (abs p) (absm m)).
    Proof.
      intros Hepg Hepe.
      destruct (wl_cur p W) as [Hpc [Hpw Hkg]]. destruct (wl_en p W) as [Hepc [Hepw Hekg]].
      pose proof from_in_list as Hin. rewrite Hk in Hin.
      pose proof (sr_valid _ _ _ Rf) as Vf. pose proof (sr_valid _ _ _ Rt) as Vt. pose proof (sr_valid _ _ _ Rk) as Vk.
      pose proof from_range as Rg1. pose proof to_range as Rg2.
      assert (Rg3 : 0 <= ks < 128) by apply (validb_range _ Vk).
      destruct ks_ne as [Nfk Ntk]. pose proof from_ne_to as Nft. pose proof Hks as Hks'.
      assert (Hink : In ks (en_pawns p)) by (apply (LQ_In _ _ _ _ Hepw Vk); rewrite Hks; qsimp; reflexivity).
      destruct (kill_Ok P_KILL_PAWN _ _ Hink) as [l Hl].
      assert (H1 : ph1 p m = Ok (cur_pieces p, replace_first (cur_pawns p) from to, cur_king p, b, kind_eqb k King)).
      { unfold ph1. cbn [mfrom mto mpromo]. rewrite Hfrom, Hp, Hk. cbn [is_pc kind_eqb]. rewrite color_eqb_refl. reflexivity. }
      assert (H3 : ph3 p m b = Ok (en_pieces p, en_pawns p)).
      { unfold ph3. cbn [mto]. rewrite Hte. reflexivity. }
      assert (H4 : ph4 p m b (en_pawns p) = Ok (set (set b to (Pc c Pawn)) ks Empty, l)).
      { unfold ph4. cbn [mfrom mto mpromo]. rewrite Hp. cbv zeta.
        rewrite get_set_if by first [exact Hlen | assumption | apply Rg1].
        rewrite from_ne_to_b, Hfrom, Hk, Hepto, Z.eqb_refl. cbn [is_pc kind_eqb]. rewrite color_eqb_refl. cbn [andb].
        rewrite (sr_file _ _ _ Rt), (sr_rank _ _ _ Rf). replace (tf + 16 * fr) with ks by (clear; lia).
        rewrite Hl. reflexivity. }
      pose proof (make_run _ _ _ _ _ _ _ _ _ _ _ H1 H3 H4) as Hmk. cbn [mfrom mep] in Hmk.
      apply (finish b4 (cur_pieces p) (replace_first (cur_pawns p) from to) (cur_king p) (en_pieces p) l); try assumption.
      - rewrite !set_length. exact Hlen.
      - apply offb_set; [rewrite !set_length; exact Hlen| |exact Vf].
        apply offb_set; [rewrite set_length; exact Hlen| |exact Vk]. apply offb_set; [exact Hlen|exact (wl_off p W)|exact Vt].
      - split; [|split].
        + apply (LQ_frame _ _ _ _ Hpc). prof_ep.
        + apply (LQ_replace _ _ _ _ _ _ Hpw Vf Vt); [rewrite Hfrom, Hk; qsimp; reflexivity|exact Hto_pawn|]. prof_ep.
        + apply (LQ_frame _ _ _ _ Hkg). prof_ep.
      - split; [|split].
        + apply (LQ_frame _ _ _ _ Hepc). prof_ep.
        + apply (LQ_kill _ _ _ _ _ _ _ Hepw Hl). prof_ep.
        + apply (LQ_frame _ _ _ _ Hekg). prof_ep.
      - rewrite replace_first_length. exact (wl_cpw p W).
      - pose proof (kill_length _ _ _ _ Hl) as KL. pose proof (wl_epw p W) as C. clear - KL C. lia.
      - rewrite replace_first_length. exact (wl_cpc p W).
      - pose proof (kill_length _ _ _ _ Hl) as KL. pose proof (wl_epc p W) as C. clear - KL C. lia.
      - intros s Hs. apply (replace_first_In _ _ _ _ (proj1 Hpw) Hin) in Hs.
        destruct Hs as [[Hs _]| ->]; [apply (wl_crk p W); exact Hs|].
        destruct (wl_ep p W) as [E|[_ [R _]]].
        + exfalso. rewrite <- Hepto, E in Vt. vm_compute in Vt. discriminate.
        + rewrite <- Hepto, R. destruct (wturn p); clear; lia.
      - intros s Hs. apply (kill_In _ _ _ _ s (proj1 Hepw) Hl) in Hs. apply (wl_erk p W). tauto.
      - intros z Hz N1 N2 Hc.
        assert (N3 : z <> ks).
        { intros ->. rewrite Hks' in Hc. clear - Hc. destruct Hc as [Hc|[Hc|[_ [Hc|Hc]]]]; discriminate. }
        rewrite !get_set_if by (rewrite ?set_length; first [exact Hlen | assumption]).
        apply Z.eqb_neq in N1, N2, N3. rewrite N1, N2, N3. reflexivity.
      - intros x. rewrite apply_brd. cbv zeta.
        cbn [abs absm Spec.brd Spec.turn Spec.mfrom Spec.mto Spec.promo mfrom mto mpromo].
        rewrite (sr_coords _ _ _ Rf), (sr_coords _ _ _ Rt). cbn [fst snd].
        rewrite !has_from, empty_to, B_from, Hte, Hk, Hp. cbn [kind_eqb is_empty andb].
        assert (E0 : (tf - ff =? 0) = false) by (clear - Hdf; lia). rewrite E0. cbn [negb andb].
        rewrite (abs_set _ _ _ _ _ Rf) by (rewrite !set_length; exact Hlen). unfold Spec.set at 1.
        rewrite (abs_set _ _ _ _ _ Rk) by (rewrite !set_length; exact Hlen). unfold Spec.set at 1.
        rewrite (abs_set _ _ _ _ _ Rt Hlen). unfold Spec.set. destruct x as [xf xr]. rewrite !sq_eqb_fr. cbn [abs_cell].
        pose proof (sr_eq _ _ _ Rf) as E1. pose proof (sr_eq _ _ _ Rt) as E2.
        destruct (Z.eqb_spec xf ff) as [A1|A1], (Z.eqb_spec xr fr) as [A2|A2], (Z.eqb_spec xf tf) as [A3|A3],
                 (Z.eqb_spec xr tr) as [A4|A4]; cbn [andb]; try reflexivity;
        exfalso; clear - Nft Nfk Ntk E1 E2 A1 A2 A3 A4; lia.
    Qed.

  End EnPassant.

  (* ---------------------------------------------------------------------------------------------------- *)
  (* class "castling"                                                                                     *)
  (* ---------------------------------------------------------------------------------------------------- *)

  Section Castle.
    Hypothesis Hk : k = King.
    Hypothesis Hp : promo = None.
    Hypothesis Hff : ff = 4.
    Hypothesis Hfr : fr = Spec.home_rank c.
    Hypothesis Htr : tr = fr.
    Variables rf rt : Z.
    Hypothesis Hside : (tf = 6 /\ rf = 7 /\ rt = 5) \/ (tf = 2 /\ rf = 0 /\ rt = 3).
    Hypothesis Hrook : get b (rf + castle_rank c) = Pc c Rook.
    Hypothesis Hr1e : get b (rt + castle_rank c) = Empty.
    Hypothesis Hte : get b to = Empty.
    Local Notation r0 := (rf + castle_rank c).
    Local Notation r1 := (rt + castle_rank c).
    Local Notation b1 := (set (set b r0 Empty) r1 (Pc c Rook)).
    Local Notation b4 := (set (set b1 to (Pc c King)) from Empty).

    Lemma Rr0 : sqrep r0 rf fr.
    Proof.
      destruct (castle_home c) as [E _]. replace r0 with (16 * fr + rf) by (rewrite E, Hfr; clear; lia).
      apply sqrep_of_fr; [clear - Hside; lia|apply Rf].
    Qed.
    Lemma Rr1 : sqrep r1 rt fr.
    Proof.
      destruct (castle_home c) as [E _]. replace r1 with (16 * fr + rt) by (rewrite E, Hfr; clear; lia).
      apply sqrep_of_fr; [clear - Hside; lia|apply Rf].
    Qed.

    Lemma castle_ne : from <> to /\ from <> r0 /\ from <> r1 /\ to <> r0 /\ to <> r1 /\ r0 <> r1.
    Proof.
      pose proof (sr_eq _ _ _ Rf). pose proof (sr_eq _ _ _ Rt). pose proof (sr_eq _ _ _ Rr0). pose proof (sr_eq _ _ _ Rr1).
      clear - H H0 H1 H2 Hside Hff Htr. lia.
    Qed.

    Ltac prof_ca :=
      let s := fresh "s" in let Hs := fresh "Hs" in let Hs0 := fresh "Hs0" in
      intros s Hs; destruct (validb_range s Hs) as [Hs0 _];
      rewrite !get_set_if by (rewrite ?set_length; first [exact Hlen | assumption | exact (proj1 Hs0)]);
      destruct (Z.eqb_spec s from) as [E1|E1]; destruct (Z.eqb_spec s to) as [E2|E2];
      destruct (Z.eqb_spec s r0) as [E3|E3]; destruct (Z.eqb_spec s r1) as [E4|E4];
      try (exfalso; congruence); try subst s;
      rewrite ?Hfrom, ?Hrook, ?Hr1e, ?Hte, ?Hk; qsimp; cbn [kind_eqb is_piece_kind]; try reflexivity.

    Lemma opp_ne : forall col k1 k2, Pc col k1 <> Pc (opp col) k2.
    Proof. intros [|] k1 k2; discriminate. Qed.

    Theorem castle_case :
      ep_good p b4 mepv ->
      (if onb mepv then Some (coords mepv) else None) = Spec.ep (Spec.apply (abs p) (absm m)) ->
      exists p', make p m = Ok (p', negb (Spec.in_check (Spec.brd (Spec.apply (abs p) (absm m))) c))
         /\ wf p' = true /\ pos_equiv (abs p') (Spec.apply (abs p) (absm m)).
    Proof.
      intros Hepg Hepe.
      destruct (wl_cur p W) as [Hpc [Hpw Hkg]]. destruct (wl_en p W) as [Hepc [Hepw Hekg]].
      pose proof from_in_list as Hin. rewrite Hk in Hin.
      pose proof (sr_valid _ _ _ Rf) as Vf. pose proof (sr_valid _ _ _ Rt) as Vt.
      pose proof (sr_valid _ _ _ Rr0) as V0. pose proof (sr_valid _ _ _ Rr1) as V1.
      pose proof from_range as Rg1. pose proof to_range as Rg2.
      assert (Rg3 : 0 <= r0 < 128) by apply (validb_range _ V0).
      assert (Rg4 : 0 <= r1 < 128) by apply (validb_range _ V1).
      destruct castle_ne as [Nft [Nf0 [Nf1 [Nt0 [Nt1 N01]]]]].
      pose proof Hrook as Hrook'. pose proof Hr1e as Hr1e'.
      assert (H1 : ph1 p m = Ok (replace_first (cur_pieces p) r0 r1, cur_pawns p, to, b1, kind_eqb k King)).
      { unfold ph1. cbn [mfrom mto mpromo]. rewrite Hfrom, Hk. cbn [is_pc kind_eqb]. rewrite andb_false_r.
        rewrite <- Hin, Z.eqb_refl, (sr_file _ _ _ Rf), (sr_file _ _ _ Rt), Hff.
        destruct Hside as [[E1 [E2 E3]]|[E1 [E2 E3]]]; rewrite E1, E2, E3; reflexivity. }
      assert (G1 : get b1 to = Empty).
      { rewrite !get_set_if by (rewrite ?set_length; first [exact Hlen | assumption | apply Rg2]).
        apply Z.eqb_neq in Nt0, Nt1. rewrite Nt0, Nt1. exact Hte. }
      assert (G2 : get b1 from = Pc c King).
      { rewrite !get_set_if by (rewrite ?set_length; first [exact Hlen | assumption | apply Rg1]).
        apply Z.eqb_neq in Nf0, Nf1. rewrite Nf0, Nf1, Hfrom, Hk. reflexivity. }
      assert (H3 : ph3 p m b1 = Ok (en_pieces p, en_pawns p)).
      { unfold ph3. cbn [mto]. rewrite G1. reflexivity. }
      assert (H4 : ph4 p m b1 (en_pawns p) = Ok (set b1 to (Pc c King), en_pawns p)).
      { unfold ph4. cbn [mfrom mto mpromo]. rewrite Hp. cbv zeta.
        rewrite (get_set_if _ to _ from) by (rewrite ?set_length; first [exact Hlen | assumption | apply Rg1]).
        rewrite from_ne_to_b, G2. cbn [is_pc kind_eqb]. rewrite !andb_false_r. reflexivity. }
      pose proof (make_run _ _ _ _ _ _ _ _ _ _ _ H1 H3 H4) as Hmk. cbn [mfrom mep] in Hmk.
      apply (finish b4 (replace_first (cur_pieces p) r0 r1) (cur_pawns p) to (en_pieces p) (en_pawns p)); try assumption.
      - rewrite !set_length. exact Hlen.
      - apply offb_set; [rewrite !set_length; exact Hlen| |exact Vf].
        apply offb_set; [rewrite !set_length; exact Hlen| |exact Vt].
        apply offb_set; [rewrite !set_length; exact Hlen| |exact V1].
        apply offb_set; [exact Hlen|exact (wl_off p W)|exact V0].
      - split; [|split].
        + apply (LQ_replace _ _ _ _ _ _ Hpc V0 V1); [rewrite Hrook; qsimp; reflexivity|rewrite Hr1e; reflexivity|]. prof_ca.
        + apply (LQ_frame _ _ _ _ Hpw). prof_ca.
        + rewrite <- Hin in Hkg. apply (LQ_king _ _ _ _ _ Hkg Vt); [rewrite Hfrom, Hk; qsimp; reflexivity|exact Hto_king|]. prof_ca.
      - split; [|split].
        + apply (LQ_frame _ _ _ _ Hepc). prof_ca.
        + apply (LQ_frame _ _ _ _ Hepw). prof_ca.
        + apply (LQ_frame _ _ _ _ Hekg). prof_ca.
      - exact (wl_cpw p W).
      - exact (wl_epw p W).
      - rewrite replace_first_length. exact (wl_cpc p W).
      - exact (wl_epc p W).
      - exact (wl_crk p W).
      - exact (wl_erk p W).
      - intros z Hz N1 N2 Hc.
        assert (N3 : z <> r0).
        { intros ->. rewrite Hrook' in Hc. destruct Hc as [Hc|[Hc|[Hc _]]]; [exact (opp_ne _ _ _ Hc)|exact (opp_ne _ _ _ Hc)|exact (Hc Hk)]. }
        assert (N4 : z <> r1).
        { intros ->. rewrite Hr1e' in Hc. destruct Hc as [Hc|[Hc|[Hc _]]]; [discriminate|discriminate|exact (Hc Hk)]. }
        rewrite !get_set_if by (rewrite ?set_length; first [exact Hlen | assumption]).
        apply Z.eqb_neq in N1, N2, N3, N4. rewrite N1, N2, N3, N4. reflexivity.
      - intros x. rewrite apply_brd. cbv zeta.
        cbn [abs absm Spec.brd Spec.turn Spec.mfrom Spec.mto Spec.promo mfrom mto mpromo].
        rewrite (sr_coords _ _ _ Rf), (sr_coords _ _ _ Rt). cbn [fst snd].
        rewrite !has_from, B_from, Hk, Hp. cbn [kind_eqb andb].
        rewrite (abs_set _ _ _ _ _ Rf) by (rewrite !set_length; exact Hlen). unfold Spec.set at 1.
        rewrite (abs_set _ _ _ _ _ Rt) by (rewrite !set_length; exact Hlen). unfold Spec.set at 1.
        rewrite (abs_set _ _ _ _ _ Rr1) by (rewrite !set_length; exact Hlen). unfold Spec.set at 1.
        rewrite (abs_set _ _ _ _ _ Rr0 Hlen). unfold Spec.set at 1. cbn [abs_cell].
        pose proof (sr_eq _ _ _ Rf) as E1. pose proof (sr_eq _ _ _ Rt) as E2.
        destruct Hside as [[S1 [S2 S3]]|[S1 [S2 S3]]].
        + assert (D1 : (tf - ff =? 2) = true) by (clear - S1 Hff; lia). rewrite D1.
          unfold Spec.set. destruct x as [xf xr]. rewrite !sq_eqb_fr, S2, S3, Htr.
          destruct (Z.eqb_spec xf ff) as [A1|A1], (Z.eqb_spec xr fr) as [A2|A2], (Z.eqb_spec xf tf) as [A3|A3],
                   (Z.eqb_spec xf 7) as [A4|A4], (Z.eqb_spec xf 5) as [A5|A5]; cbn [andb]; try reflexivity;
          exfalso; clear - S1 Hff A1 A2 A3 A4 A5; lia.
        + assert (D1 : (tf - ff =? 2) = false) by (clear - S1 Hff; lia). rewrite D1.
          assert (D2 : (tf - ff =? -2) = true) by (clear - S1 Hff; lia). rewrite D2.
          unfold Spec.set. destruct x as [xf xr]. rewrite !sq_eqb_fr, S2, S3, Htr.
          destruct (Z.eqb_spec xf ff) as [A1|A1], (Z.eqb_spec xr fr) as [A2|A2], (Z.eqb_spec xf tf) as [A3|A3],
                   (Z.eqb_spec xf 0) as [A4|A4], (Z.eqb_spec xf 3) as [A5|A5]; cbn [andb]; try reflexivity;
          exfalso; clear - S1 Hff A1 A2 A3 A4 A5; lia.
    Qed.

  End Castle.

End Move.


(* ====================================================================================================== *)
(* 11. from Spec.pseudo to the move classes                                                               *)
(* ====================================================================================================== *)

Lemma fwd_pm : forall c, Spec.fwd c = 1 \/ Spec.fwd c = -1.
Proof. destruct c; cbn; tauto. Qed.

Lemma no_promo_None : forall pr, Spec.no_promo pr = true -> pr = None.
Proof. destruct pr; [discriminate|reflexivity]. Qed.

Lemma is_col_opp : forall c x, is_col (opp c) x = true -> is_col c x = false /\ x <> Empty.
Proof. intros [|] [|[|] k]; cbn; intros H; try discriminate; split; try reflexivity; discriminate. Qed.

Section Main.
  Variable p : pos.
  Variables from to : Z.
  Variable promo : option kind.
  Variable mepv : Z.
  Local Notation m := {| mfrom := from; mto := to; mpromo := promo; mep := mepv |}.
  Local Notation c := (cur_color p).
  Local Notation e := (opp (cur_color p)).
  Local Notation b := (board p).
  Local Notation F := (Spec.fwd (cur_color p)).
  Local Notation Concl :=
    (exists p', make p m = Ok (p', negb (Spec.in_check (Spec.brd (Spec.apply (abs p) (absm m))) c))
       /\ wf p' = true /\ pos_equiv (abs p') (Spec.apply (abs p) (absm m))).
  Hypothesis Hwf : wf p = true.
  Hypothesis Hnc : not_capturable p = true.
  Hypothesis Hply : ply p + 1 < 32767.
  Variables ff fr tf tr : Z.
  Hypothesis Rf : sqrep from ff fr.
  Hypothesis Rt : sqrep to tf tr.
  Hypothesis Hmep : mepv = mep_of p from to.

  Let W : wf_facts p := wf_facts_of p Hwf.

  Lemma pseudo_inv : Spec.pseudo (abs p) (absm m) = true ->
    exists k, get b from = Pc c k /\ is_col c (get b to) = false /\
    match k with
    | Pawn => Spec.promo_ok c (tf, tr) promo = true /\
        ( (tf - ff = 0 /\ tr - fr = F /\ get b to = Empty)
          \/ (tf - ff = 0 /\ tr - fr = 2 * F /\ fr = Spec.start_rank c /\ get b (16 * (fr + F) + ff) = Empty /\ get b to = Empty)
          \/ (Z.abs (tf - ff) = 1 /\ tr - fr = F /\
              (is_col e (get b to) = true \/ (get b to = Empty /\ onb (ep p) = true /\ coords (ep p) = (tf, tr)))) )
    | King => promo = None /\
        ( Spec.attacks (abs_board b) (ff, fr) (tf, tr) = true
          \/ (fr = Spec.home_rank c /\ ff = 4 /\ tr - fr = 0 /\ tf - ff = 2 /\ Spec.castle_ok (abs p) true = true)
          \/ (fr = Spec.home_rank c /\ ff = 4 /\ tr - fr = 0 /\ tf - ff = -2 /\ Spec.castle_ok (abs p) false = true) )
    | _ => promo = None /\ Spec.attacks (abs_board b) (ff, fr) (tf, tr) = true
    end.
  Proof.
    intros H. unfold Spec.pseudo in H. cbv zeta in H.
    cbn [abs absm Spec.brd Spec.turn Spec.mfrom Spec.mto Spec.promo Spec.ep mfrom mto mpromo] in H.
    rewrite (sr_coords _ _ _ Rf), (sr_coords _ _ _ Rt) in H. cbn [fst snd] in H.
    apply andb_prop in H as [H H4]. apply andb_prop in H as [H H3]. clear H.
    rewrite owned_fr in H3 by apply Rt. rewrite <- (sr_eq _ _ _ Rt) in H3. apply negb_true_iff in H3.
    rewrite abs_fr in H4 by apply Rf. rewrite <- (sr_eq _ _ _ Rf) in H4.
    destruct (get b from) as [|c' k] eqn:Hfrom; [discriminate H4|]. cbn [abs_cell] in H4.
    apply andb_prop in H4 as [Hc H4]. apply color_eqb_eq in Hc. subst c'.
    exists k. split; [reflexivity|]. split; [exact H3|].
    pose proof (sr_r _ _ _ Rf) as Bfr. pose proof (sr_r _ _ _ Rt) as Btr. pose proof (sr_f _ _ _ Rf) as Bff.
    destruct k.
    - apply andb_prop in H4 as [Hpr H4]. split; [exact Hpr|].
      apply orb_prop in H4 as [H4|H4]; [apply orb_prop in H4 as [H4|H4]|].
      + left. apply andb_prop in H4 as [H4 E3]. apply andb_prop in H4 as [E1 E2].
        rewrite (empty_to p to tf tr Rt) in E3. apply is_empty_eq in E3. apply Z.eqb_eq in E1, E2. tauto.
      + right. left. apply andb_prop in H4 as [H4 E5]. apply andb_prop in H4 as [H4 E4].
        apply andb_prop in H4 as [H4 E3]. apply andb_prop in H4 as [E1 E2].
        apply Z.eqb_eq in E1, E2, E3.
        rewrite (empty_to p to tf tr Rt) in E5. apply is_empty_eq in E5.
        rewrite empty_fr in E4 by (destruct (fwd_pm c) as [G|G]; rewrite G in *; clear - E2 Bfr Btr Bff; lia).
        apply is_empty_eq in E4. tauto.
      + right. right. apply andb_prop in H4 as [H4 E3]. apply andb_prop in H4 as [E1 E2].
        apply Z.eqb_eq in E1, E2. split; [exact E1|]. split; [exact E2|].
        apply orb_prop in E3 as [E3|E3].
        * left. rewrite owned_fr in E3 by apply Rt. rewrite <- (sr_eq _ _ _ Rt) in E3. exact E3.
        * right. apply andb_prop in E3 as [E3 E4]. rewrite (empty_to p to tf tr Rt) in E3. apply is_empty_eq in E3.
          split; [exact E3|]. destruct (onb (ep p)); [|discriminate E4]. split; [reflexivity|].
          destruct (coords (ep p)) as [f' r']. rewrite sq_eqb_fr in E4. apply andb_prop in E4 as [G1 G2].
          apply Z.eqb_eq in G1, G2. congruence.
    - apply andb_prop in H4 as [Hpr H4]. apply no_promo_None in Hpr. tauto.
    - apply andb_prop in H4 as [Hpr H4]. apply no_promo_None in Hpr. tauto.
    - apply andb_prop in H4 as [Hpr H4]. apply no_promo_None in Hpr. tauto.
    - apply andb_prop in H4 as [Hpr H4]. apply no_promo_None in Hpr. tauto.
    - apply andb_prop in H4 as [Hpr H4]. apply no_promo_None in Hpr. split; [exact Hpr|].
      apply orb_prop in H4 as [H4|H4]; [apply orb_prop in H4 as [H4|H4]|].
      + left. exact H4.
      + right. left. apply andb_prop in H4 as [H4 E5]. apply andb_prop in H4 as [H4 E4].
        apply andb_prop in H4 as [H4 E3]. apply andb_prop in H4 as [E1 E2]. apply Z.eqb_eq in E1, E2, E3, E4. tauto.
      + right. right. apply andb_prop in H4 as [H4 E5]. apply andb_prop in H4 as [H4 E4].
        apply andb_prop in H4 as [H4 E3]. apply andb_prop in H4 as [E1 E2]. apply Z.eqb_eq in E1, E2, E3, E4. tauto.
  Qed.

  Variable k : kind.
  Hypothesis Hfrom : get b from = Pc c k.
  Hypothesis Hto : is_col c (get b to) = false.

  (* ---------- moves that are attacks: knight, bishop, rook, queen, king steps ---------- *)

  Lemma attack_case : k <> Pawn -> promo = None -> Spec.attacks (abs_board b) (ff, fr) (tf, tr) = true -> Concl.
  Proof.
    intros NP Hp Ha.
    assert (Hnk : get b to <> Pc e King).
    { apply (no_king_capture p from to k Hwf Hnc (sr_valid _ _ _ Rf) (sr_valid _ _ _ Rt) Hfrom).
      rewrite (sr_coords _ _ _ Rf), (sr_coords _ _ _ Rt). exact Ha. }
    assert (NPb : kind_eqb Pawn k = false) by (destruct k; try reflexivity; contradiction).
    assert (Em : mepv = INVALID) by (rewrite Hmep, (mep_cases p from to k Hfrom), NPb; reflexivity).
    destruct (ep_none p from to promo mepv ff fr tf tr Rf Rt k Hfrom
               (set (set b to (Pc c k)) from Empty) ltac:(rewrite NPb; reflexivity) Em) as [G1 G2].
    apply (plain_case p from to promo mepv Hwf Hply ff fr tf tr Rf Rt k Hfrom Hto Hnk k); try assumption.
    - left. tauto.
    - intros ->. unfold Spec.attacks in Ha. rewrite (B_from p from ff fr Rf King Hfrom) in Ha.
      unfold Spec.piece_attacks in Ha. cbv zeta in Ha. cbn [fst snd] in Ha. clear - Ha. lia.
    - intros ->. contradiction.
    - intros ->. contradiction.
    - intros ->. contradiction.
  Qed.

  (* ---------- castling ---------- *)

  Lemma castle_rank_home : castle_rank c = 16 * Spec.home_rank c /\ 0 <= Spec.home_rank c < 8.
  Proof. apply castle_home. Qed.

  Lemma castling_case : forall (kingside : bool), k = King -> promo = None ->
    fr = Spec.home_rank c -> ff = 4 -> tr - fr = 0 -> tf - ff = (if kingside then 2 else -2) ->
    Spec.castle_ok (abs p) kingside = true -> Concl.
  Proof.
    intros ks Hk Hp Hfr Hff Htr Htf Hok.
    destruct castle_rank_home as [Ecr Bh]. set (h := Spec.home_rank c) in *.
    assert (Etr : tr = fr) by (clear - Htr; lia).
    assert (NPb : kind_eqb Pawn k = false) by (rewrite Hk; reflexivity).
    assert (Em : mepv = INVALID) by (rewrite Hmep, (mep_cases p from to k Hfrom), NPb; reflexivity).
    unfold Spec.castle_ok in Hok. cbv zeta in Hok. cbn [abs Spec.brd Spec.turn] in Hok. fold h in Hok.
    pose proof (sr_eq _ _ _ Rt) as Eto.
    destruct ks.
    - repeat match type of Hok with (_ && _) = true => let H' := fresh "C" in apply andb_prop in Hok as [Hok H'] end.
      clear C C0 C1 Hok.
      rewrite empty_fr in C2, C3 by (clear - Bh; lia). rewrite has_fr in C4 by (clear - Bh; lia).
      apply is_empty_eq in C2, C3.
      assert (Hrook : get b (7 + castle_rank c) = Pc c Rook).
      { replace (7 + castle_rank c) with (16 * h + 7) by (clear - Ecr; lia).
        unfold is_pc in C4. destruct (get b (16 * h + 7)) as [|c' k']; [discriminate|].
        apply andb_prop in C4 as [A1 A2]. apply color_eqb_eq in A1. apply kind_eqb_eq in A2. congruence. }
      assert (Hr1 : get b (5 + castle_rank c) = Empty).
      { replace (5 + castle_rank c) with (16 * h + 5) by (clear - Ecr; lia). exact C3. }
      assert (Hte : get b to = Empty).
      { replace to with (16 * h + 6) by (clear - Eto Etr Hfr Htf Hff; subst h; lia). exact C2. }
      assert (Hnk : get b to <> Pc e King) by (rewrite Hte; discriminate).
      destruct (ep_none p from to promo mepv ff fr tf tr Rf Rt k Hfrom
          (set (set (set (set b (7 + castle_rank c) Empty) (5 + castle_rank c) (Pc c Rook)) to (Pc c King)) from Empty)
          ltac:(rewrite NPb; reflexivity) Em) as [G1 G2].
      apply (castle_case p from to promo mepv Hwf Hply ff fr tf tr Rf Rt k Hfrom Hto Hnk Hk Hp Hff Hfr Etr 7 5);
        try assumption.
      left. clear - Htf Hff. lia.
    - repeat match type of Hok with (_ && _) = true => let H' := fresh "C" in apply andb_prop in Hok as [Hok H'] end.
      clear C C0 C1 Hok.
      rewrite empty_fr in C2, C3, C4 by (clear - Bh; lia). rewrite has_fr in C5 by (clear - Bh; lia).
      apply is_empty_eq in C2, C3, C4.
      assert (Hrook : get b (0 + castle_rank c) = Pc c Rook).
      { replace (0 + castle_rank c) with (16 * h + 0) by (clear - Ecr; lia).
        unfold is_pc in C5. destruct (get b (16 * h + 0)) as [|c' k']; [discriminate|].
        apply andb_prop in C5 as [A1 A2]. apply color_eqb_eq in A1. apply kind_eqb_eq in A2. congruence. }
      assert (Hr1 : get b (3 + castle_rank c) = Empty).
      { replace (3 + castle_rank c) with (16 * h + 3) by (clear - Ecr; lia). exact C4. }
      assert (Hte : get b to = Empty).
      { replace to with (16 * h + 2) by (clear - Eto Etr Hfr Htf Hff; subst h; lia). exact C3. }
      assert (Hnk : get b to <> Pc e King) by (rewrite Hte; discriminate).
      destruct (ep_none p from to promo mepv ff fr tf tr Rf Rt k Hfrom
          (set (set (set (set b (0 + castle_rank c) Empty) (3 + castle_rank c) (Pc c Rook)) to (Pc c King)) from Empty)
          ltac:(rewrite NPb; reflexivity) Em) as [G1 G2].
      apply (castle_case p from to promo mepv Hwf Hply ff fr tf tr Rf Rt k Hfrom Hto Hnk Hk Hp Hff Hfr Etr 0 3);
        try assumption.
      right. clear - Htf Hff. lia.
  Qed.

  (* ---------- pawn moves ---------- *)

  Lemma color_facts : (F = 1 /\ Spec.last_rank c = 7 /\ Spec.start_rank c = 1 /\ wturn p = true)
                      \/ (F = -1 /\ Spec.last_rank c = 0 /\ Spec.start_rank c = 6 /\ wturn p = false).
  Proof. unfold cur_color. destruct (wturn p); cbn; tauto. Qed.

  Lemma promo_cases : Spec.promo_ok c (tf, tr) promo = true ->
    (tr <> Spec.last_rank c /\ promo = None) \/
    (tr = Spec.last_rank c /\ exists kx, promo = Some kx /\ is_piece_kind kx = true).
  Proof.
    unfold Spec.promo_ok. cbn [snd]. destruct (Z.eqb_spec tr (Spec.last_rank c)) as [E|N]; intros H.
    - right. split; [exact E|]. destruct promo as [[]|]; try discriminate H; eexists; split; reflexivity.
    - left. split; [exact N|]. destruct promo; [discriminate|reflexivity].
  Qed.

  Lemma pawn_rank : k = Pawn -> fr <> 0 /\ fr <> 7.
  Proof.
    intros Hk. destruct (wl_cur p W) as [_ [Hpw _]].
    assert (Hin : In from (cur_pawns p)).
    { apply (LQ_In _ _ _ _ Hpw (sr_valid _ _ _ Rf)). rewrite Hfrom, Hk. qsimp. reflexivity. }
    destruct (wl_crk p W from Hin) as [A B]. rewrite (sr_rank _ _ _ Rf) in A, B. clear - A B. lia.
  Qed.

  Lemma to_not_invalid : to <> INVALID.
  Proof. intros E. pose proof (sr_valid _ _ _ Rt) as V. rewrite E in V. vm_compute in V. discriminate. Qed.

  (* single push, capture (with or without promotion) *)
  Lemma pawn_plain : k = Pawn -> Spec.promo_ok c (tf, tr) promo = true ->
    tr - fr = F -> -1 <= tf - ff <= 1 -> get b to <> Pc e King ->
    (tf <> ff -> get b to <> Empty) -> ep p <> to -> Concl.
  Proof.
    intros Hk Hpr Hdr Hdf Hnk Hne1 Hne2.
    destruct (pawn_rank Hk) as [R0 R7].
    pose proof (sr_eq _ _ _ Rf) as Ef. pose proof (sr_eq _ _ _ Rt) as Et.
    pose proof (sr_r _ _ _ Rf) as Bfr. pose proof (sr_r _ _ _ Rt) as Btr.
    assert (Pb : kind_eqb Pawn k = true) by (rewrite Hk; reflexivity).
    assert (Em : mepv = INVALID).
    { rewrite Hmep, (mep_cases p from to k Hfrom), Pb. cbn [andb].
      assert (X : (to - from =? 32) || (from - to =? 32) = false).
      { destruct color_facts as [[G _]|[G _]]; rewrite G in Hdr; clear - Ef Et Hdr Hdf; lia. }
      rewrite X. reflexivity. }
    assert (D2 : kind_eqb Pawn k && (Z.abs (tr - fr) =? 2) = false).
    { rewrite Pb. destruct color_facts as [[G _]|[G _]]; rewrite G in Hdr; clear - Hdr; lia. }
    destruct (promo_cases Hpr) as [[NL Hp]|[EL [kx [Hp Hkx]]]].
    - destruct (ep_none p from to promo mepv ff fr tf tr Rf Rt k Hfrom
               (set (set b to (Pc c Pawn)) from Empty) D2 Em) as [G1 G2].
      apply (plain_case p from to promo mepv Hwf Hply ff fr tf tr Rf Rt k Hfrom Hto Hnk Pawn); try assumption.
      + left. split; [exact Hp|symmetry; exact Hk].
      + intros E. rewrite Hk in E. discriminate.
      + intros _ _. destruct color_facts as [[G [L _]]|[G [L _]]]; rewrite G in Hdr; rewrite L in NL;
          clear - Hdr NL Bfr Btr; lia.
      + intros _. exact Hne1.
      + intros _. exact Hne2.
    - destruct (ep_none p from to promo mepv ff fr tf tr Rf Rt k Hfrom
               (set (set b to (Pc c kx)) from Empty) D2 Em) as [G1 G2].
      apply (plain_case p from to promo mepv Hwf Hply ff fr tf tr Rf Rt k Hfrom Hto Hnk kx); try assumption.
      + right. tauto.
      + intros E. rewrite Hk in E. discriminate.
      + intros _ E. rewrite Hp in E. discriminate.
      + intros _. exact Hne1.
      + intros _. exact Hne2.
  Qed.

  Lemma pawn_push : k = Pawn -> Spec.promo_ok c (tf, tr) promo = true ->
    tf - ff = 0 -> tr - fr = F -> get b to = Empty -> Concl.
  Proof.
    intros Hk Hpr Hdf Hdr Hte.
    apply pawn_plain; try assumption.
    - clear - Hdf. lia.
    - rewrite Hte. discriminate.
    - intros N. exfalso. clear - N Hdf. lia.
    - intros E. destruct (wl_ep p W) as [E'|[_ [_ [G _]]]].
      + apply to_not_invalid. congruence.
      + cbv zeta in G. rewrite E in G.
        assert (X : to - (if wturn p then 16 else -16) = from).
        { pose proof (sr_eq _ _ _ Rf) as Ef. pose proof (sr_eq _ _ _ Rt) as Et.
          destruct color_facts as [[A [_ [_ T]]]|[A [_ [_ T]]]]; rewrite T; rewrite A in Hdr; clear - Ef Et Hdr Hdf; lia. }
        rewrite X, Hfrom in G. exact (opp_ne _ _ _ G).
  Qed.

  Lemma pawn_capture : k = Pawn -> Spec.promo_ok c (tf, tr) promo = true ->
    Z.abs (tf - ff) = 1 -> tr - fr = F -> is_col e (get b to) = true -> Concl.
  Proof.
    intros Hk Hpr Hdf Hdr Hen. destruct (is_col_opp _ _ Hen) as [_ Hne].
    apply pawn_plain; try assumption.
    - clear - Hdf. lia.
    - apply (no_king_capture p from to k Hwf Hnc (sr_valid _ _ _ Rf) (sr_valid _ _ _ Rt) Hfrom).
      rewrite (sr_coords _ _ _ Rf), (sr_coords _ _ _ Rt). unfold Spec.attacks.
      rewrite (B_from p from ff fr Rf k Hfrom), Hk. unfold Spec.piece_attacks. cbv zeta. cbn [fst snd].
      clear - Hdf Hdr. lia.
    - intros _. exact Hne.
    - intros E. destruct (wl_ep p W) as [E'|[_ [_ [_ [G _]]]]].
      + apply to_not_invalid. congruence.
      + rewrite E in G. contradiction.
  Qed.

  Lemma pawn_double : k = Pawn -> Spec.promo_ok c (tf, tr) promo = true ->
    tf - ff = 0 -> tr - fr = 2 * F -> fr = Spec.start_rank c ->
    get b (16 * (fr + F) + ff) = Empty -> get b to = Empty -> Concl.
  Proof.
    intros Hk Hpr Hdf Hdr Hst Hmid Hte.
    pose proof (sr_eq _ _ _ Rf) as Ef. pose proof (sr_eq _ _ _ Rt) as Et.
    pose proof (sr_r _ _ _ Rf) as Bfr. pose proof (sr_r _ _ _ Rt) as Btr. pose proof (sr_f _ _ _ Rf) as Bff.
    assert (Pb : kind_eqb Pawn k = true) by (rewrite Hk; reflexivity).
    assert (Hnk : get b to <> Pc e King) by (rewrite Hte; discriminate).
    assert (Bmid : 0 <= fr + F < 8) by (destruct color_facts as [[G _]|[G _]]; rewrite G in *; clear - Hdr Bfr Btr; lia).
    pose proof (sqrep_of_fr ff (fr + F) Bff Bmid) as Re.
    set (es := 16 * (fr + F) + ff) in *.
    assert (Em : mepv = es).
    { rewrite Hmep, (mep_cases p from to k Hfrom), Pb. cbn [andb].
      assert (X : (to - from =? 32) || (from - to =? 32) = true).
      { destruct color_facts as [[G _]|[G _]]; rewrite G in Hdr; clear - Ef Et Hdr Hdf; lia. }
      rewrite X. unfold es. clear - Ef Et Hdr Hdf. lia. }
    assert (Hp : promo = None).
    { destruct (promo_cases Hpr) as [[_ Hp]|[EL _]]; [exact Hp|exfalso].
      destruct color_facts as [[G [L [S _]]]|[G [L [S _]]]]; rewrite G in Hdr; rewrite L in EL; rewrite S in Hst;
        clear - Hdr EL Hst; lia. }
    assert (Nef : es <> from) by (unfold es; destruct (fwd_pm c) as [G|G]; rewrite G; clear - Ef; lia).
    assert (Net : es <> to) by (unfold es; destruct (fwd_pm c) as [G|G]; rewrite G in *; clear - Et Hdr Hdf; lia).
    pose proof (from_range from ff fr Rf) as Rg1. pose proof (to_range to tf tr Rt) as Rg2.
    pose proof (wl_len p W) as Hlen.
    assert (Rg3 : 0 <= es < 128) by apply (validb_range _ (sr_valid _ _ _ Re)).
    assert (Nft : (to =? from) = false).
    { apply Z.eqb_neq. destruct (fwd_pm c) as [G|G]; rewrite G in *; clear - Ef Et Hdr Hdf; lia. }
    apply (plain_case p from to promo mepv Hwf Hply ff fr tf tr Rf Rt k Hfrom Hto Hnk Pawn); try assumption.
    - left. split; [exact Hp|symmetry; exact Hk].
    - intros E. rewrite Hk in E. discriminate.
    - intros _ _. destruct color_facts as [[G [_ [S _]]]|[G [_ [S _]]]]; rewrite G in Hdr; rewrite S in Hst;
        clear - Hdr Hst; lia.
    - intros _ N. exfalso. clear - N Hdf. lia.
    - intros _ E. destruct (wl_ep p W) as [E'|[_ [R _]]].
      + apply to_not_invalid. congruence.
      + rewrite E, (sr_rank _ _ _ Rt) in R.
        destruct color_facts as [[G [_ [S T]]]|[G [_ [S T]]]]; rewrite T in R; rewrite G in Hdr; rewrite S in Hst;
          clear - R Hdr Hst; lia.
    - rewrite Em. right. cbv zeta.
      assert (Xd : es + (if wturn p then 16 else -16) = to /\ es - (if wturn p then 16 else -16) = from).
      { unfold es. destruct color_facts as [[G [_ [_ T]]]|[G [_ [_ T]]]]; rewrite T; rewrite G in *;
          clear - Ef Et Hdr Hdf; lia. }
      destruct Xd as [X1 X2]. rewrite X1, X2.
      split; [|split; [exact (sr_valid _ _ _ Re)|split; [|split]]].
      + rewrite (sr_rank _ _ _ Re).
        destruct color_facts as [[G [_ [S T]]]|[G [_ [S T]]]]; rewrite T, G; rewrite S in Hst; clear - Hst; lia.
      + rewrite !get_set_if by (rewrite ?set_length; first [exact Hlen | assumption | apply Rg2]).
        rewrite Nft, Z.eqb_refl. reflexivity.
      + rewrite !get_set_if by (rewrite ?set_length; first [exact Hlen | assumption | apply Rg3]).
        apply Z.eqb_neq in Nef, Net. rewrite Nef, Net. exact Hmid.
      + rewrite !get_set_if by (rewrite ?set_length; first [exact Hlen | assumption | apply Rg1]).
        rewrite Z.eqb_refl. reflexivity.
    - rewrite Em, apply_ep. cbn [abs absm Spec.brd Spec.turn Spec.mfrom Spec.mto mfrom mto].
      rewrite (sr_coords _ _ _ Rf), (sr_coords _ _ _ Rt). cbn [fst snd].
      rewrite (has_from p from ff fr Rf k Hfrom), Pb.
      assert (X : (Z.abs (tr - fr) =? 2) = true) by (destruct (fwd_pm c) as [G|G]; rewrite G in Hdr; clear - Hdr; lia).
      rewrite X. cbn [andb].
      rewrite (proj2 (validb_range _ (sr_valid _ _ _ Re))), (sr_coords _ _ _ Re). reflexivity.
  Qed.

  Lemma pawn_enpassant : k = Pawn -> Spec.promo_ok c (tf, tr) promo = true ->
    Z.abs (tf - ff) = 1 -> tr - fr = F -> get b to = Empty -> onb (ep p) = true -> coords (ep p) = (tf, tr) -> Concl.
  Proof.
    intros Hk Hpr Hdf Hdr Hte Hon Hco.
    pose proof (sr_eq _ _ _ Rf) as Ef. pose proof (sr_eq _ _ _ Rt) as Et.
    assert (Pb : kind_eqb Pawn k = true) by (rewrite Hk; reflexivity).
    assert (Hnk : get b to <> Pc e King) by (rewrite Hte; discriminate).
    assert (Hepto : ep p = to /\ rankof to = (if wturn p then 80 else 32)).
    { destruct (wl_ep p W) as [E'|[V [R _]]].
      - exfalso. rewrite E' in Hon. vm_compute in Hon. discriminate.
      - destruct (sqrep_of_valid _ V) as [f' [r' R']]. rewrite (sr_coords _ _ _ R') in Hco. inversion Hco; subst f' r'.
        assert (E : ep p = to) by (rewrite (sr_eq _ _ _ R'); symmetry; exact Et).
        split; [exact E|]. rewrite <- E. exact R. }
    destruct Hepto as [Hepto Hrk]. rewrite (sr_rank _ _ _ Rt) in Hrk.
    assert (Hp : promo = None).
    { destruct (promo_cases Hpr) as [[_ Hp]|[EL _]]; [exact Hp|exfalso].
      destruct color_facts as [[G [L [S T]]]|[G [L [S T]]]]; rewrite T in Hrk; rewrite L in EL; clear - Hrk EL; lia. }
    assert (Em : mepv = INVALID).
    { rewrite Hmep, (mep_cases p from to k Hfrom), Pb. cbn [andb].
      assert (X : (to - from =? 32) || (from - to =? 32) = false).
      { destruct color_facts as [[G _]|[G _]]; rewrite G in Hdr; clear - Ef Et Hdr Hdf; lia. }
      rewrite X. reflexivity. }
    assert (D2 : kind_eqb Pawn k && (Z.abs (tr - fr) =? 2) = false).
    { rewrite Pb. destruct color_facts as [[G _]|[G _]]; rewrite G in Hdr; clear - Hdr; lia. }
    destruct (ep_none p from to promo mepv ff fr tf tr Rf Rt k Hfrom
               (set (set (set b to (Pc c Pawn)) (16 * fr + tf) Empty) from Empty) D2 Em) as [G1 G2].
    apply (ep_case p from to promo mepv Hwf Hply ff fr tf tr Rf Rt k Hfrom Hto Hnk Hk Hp Hepto Hte); try assumption.
    - clear - Hdr. lia.
    - clear - Hdf. lia.
  Qed.

End Main.

(* ====================================================================================================== *)
(* 12. the theorem                                                                                        *)
(* ====================================================================================================== *)

Theorem make_spec : make_spec_statement.
Proof.
  unfold make_spec_statement. intros p [from to promo mepv] Hwl Hply Vf Vt Hps Hmep.
  cbn [mfrom mto] in Vf, Vt. unfold mep_ok in Hmep. cbn [mfrom mto mep] in Hmep.
  unfold wf_legal in Hwl. apply andb_prop in Hwl as [Hwf Hnc].
  destruct (sqrep_of_valid _ Vf) as [ff [fr Rf]]. destruct (sqrep_of_valid _ Vt) as [tf [tr Rt]].
  destruct (pseudo_inv p from to promo mepv ff fr tf tr Rf Rt Hps) as [k [Hfrom [Hto Hk]]].
  destruct k.
  - destruct Hk as [Hpr [[A1 [A2 A3]]|[[A1 [A2 [A3 [A4 A5]]]]|[A1 [A2 [A3|[A3 [A4 A5]]]]]]]].
    + eapply pawn_push; eassumption || reflexivity.
    + eapply pawn_double; eassumption || reflexivity.
    + eapply pawn_capture; eassumption || reflexivity.
    + eapply pawn_enpassant; eassumption || reflexivity.
  - destruct Hk as [Hp Ha]. eapply attack_case; try eassumption. discriminate.
  - destruct Hk as [Hp Ha]. eapply attack_case; try eassumption. discriminate.
  - destruct Hk as [Hp Ha]. eapply attack_case; try eassumption. discriminate.
  - destruct Hk as [Hp Ha]. eapply attack_case; try eassumption. discriminate.
  - destruct Hk as [Hp [Ha|[[A1 [A2 [A3 [A4 A5]]]]|[A1 [A2 [A3 [A4 A5]]]]]]].
    + eapply attack_case; try eassumption. discriminate.
    + eapply (castling_case p from to promo mepv Hwf Hply ff fr tf tr Rf Rt Hmep King Hfrom Hto true); try assumption; reflexivity.
    + eapply (castling_case p from to promo mepv Hwf Hply ff fr tf tr Rf Rt Hmep King Hfrom Hto false); try assumption; reflexivity.
Qed.

Print Assumptions make_spec.
