(* Property C13, tie to the source: the function calcEndtime as it stands in engine/uci.go (its syntax tree is printed from
   the source text on every run, GeneratedFns.v; GoLang.v gives Go's meaning to that syntax: int64 wrap-around, truncating
   division that panics on zero) computes exactly the model function the C13 theorems are about -- for ALL argument values. *)
From Coq Require Import ZArith List String.
Require Import Base Generated Uci GoLang GeneratedFns GoFnsProofs.
Import ListNotations.
Open Scope Z_scope.

Theorem C13_source_computes_the_model : forall start black a,
  final_var "millisForMove"
    (run_fn fn_calcEndtime [start; ga_bleft a; ga_binc a; ga_wleft a; ga_winc a; ga_mtg a] [("isBlackTurn"%string, b2z black)])
  = millis_for_move (negb black) a.
Proof. exact calcEndtime_translated. Qed.
(* the helpers min and max that calcEndtime calls: their source text means the built-in the semantics gives the calls *)
Theorem C13_source_min : forall a b, run_fn fn_min [a; b] [] = do v <- call "min" [a; b]; Ok (Returned v).
Proof. exact min_translated. Qed.
Theorem C13_source_max : forall a b, run_fn fn_max [a; b] [] = do v <- call "max" [a; b]; Ok (Returned v).
Proof. exact max_translated. Qed.
Print Assumptions C13_source_computes_the_model.
Print Assumptions C13_source_min.
Print Assumptions C13_source_max.
