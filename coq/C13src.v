(* Property C13, tie to the source: the function calcEndtime as it stands in engine/uci.go (its syntax tree is printed from
   the source text on every run, GeneratedFns.v; GoLang.v gives Go's meaning to that syntax: int64 wrap-around, truncating
   division that panics on zero) computes exactly the model function the C13 theorems are about -- for ALL argument values. *)
From Coq Require Import ZArith List String.
Require Import Base Generated Uci GoLang GeneratedFns GoFnsProofs.
Import ListNotations.
Open Scope Z_scope.

Theorem C13_source_computes_the_model : forall start black a,
  final_var "millisForMove"
    (run_fn fn_calcEndtime [start; ga_bleft a; ga_binc a; ga_wleft a; ga_winc a; ga_mtg a] [("isBlackTurn"%string, b2z black)])
  = millis_for_move (negb black) a.
Proof. exact calcEndtime_translated. Qed.
Print Assumptions C13_source_computes_the_model.
