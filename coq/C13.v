(* Property C13: time allotment is safe.  Only statements closed by [exact]; proofs are in TimeProofs.v. *)
From Coq Require Import ZArith.
Require Import Base Generated Uci TimeProofs.
Open Scope Z_scope.

(* the engine's allotment, in the range of values a GUI can send, is [alloc] of the mover's own clock *)
Theorem C13_value : forall w a,
  in_range (mover_left w a) -> in_range (mover_inc w a) -> 1 <= ga_mtg a ->
  millis_for_move w a = Ok (alloc (mover_left w a) (mover_inc w a) (ga_mtg a)).
Proof. exact millis_no_wrap. Qed.
(* taken from the clock of the side to move: the other side's parameters are irrelevant (for all values, wrap included) *)
Theorem C13_mover_clock : forall w a a',
  mover_left w a = mover_left w a' -> mover_inc w a = mover_inc w a' -> ga_mtg a = ga_mtg a' ->
  millis_for_move w a = millis_for_move w a'.
Proof. exact millis_mover_only. Qed.
(* at least 1 ms, never beyond the remaining time minus the safety margin *)
Theorem C13_bounds : forall l i m, 1 <= m -> 1 <= alloc l i m /\ alloc l i m <= Z.max 1 (l - antiflagMillis).
Proof. exact alloc_bounds. Qed.
Theorem C13_mono_left : forall l l' i m, 1 <= m -> l <= l' -> alloc l i m <= alloc l' i m.
Proof. exact alloc_mono_left. Qed.
Theorem C13_mono_inc : forall l i i' m, 1 <= m -> i <= i' -> alloc l i m <= alloc l i' m.
Proof. exact alloc_mono_inc. Qed.
Theorem C13_anti_mtg : forall l i m m', 1 <= m -> m <= m' -> alloc l i m' <= alloc l i m.
Proof. exact alloc_anti_mtg. Qed.
(* the deadline handed to the search: movetime T allots T minus the margin, for EVERY T of the range (-1 included: "no movetime
   argument" is a separate flag in the engine, encoded here by a value no parsed argument can take); clock-based go allots alloc *)
Theorem C13_movetime : forall w a, in_range (ga_movetime a) ->
  allotted_ns w a = Ok ((ga_movetime a - antiflagMillis) * 1000000).
Proof. exact allotted_movetime. Qed.
Theorem C13_clock_deadline : forall w a,
  ga_movetime a = no_movetime -> in_range (mover_left w a) -> in_range (mover_inc w a) -> 1 <= ga_mtg a ->
  allotted_ns w a = Ok (1000000 * alloc (mover_left w a) (mover_inc w a) (ga_mtg a)).
Proof. exact allotted_clock. Qed.
(* the marker for "no movetime argument" (the engine's flag moveTimeGiven = false) is not a value any argument text can produce:
   after parsing, the field is the marker or an int64 *)
Theorem C13_marker_is_no_argument : forall toks a, parse_go toks go_defaults = Some a ->
  ga_movetime a = no_movetime \/ -9223372036854775808 <= ga_movetime a <= 9223372036854775807.
Proof. exact parsed_movetime_marker. Qed.
(* whatever text follows `go`, an accepted command never divides by zero *)
Theorem C13_parsed_mtg : forall toks a, parse_go toks go_defaults = Some a -> 1 <= ga_mtg a.
Proof. intros toks a. exact (parse_go_mtg toks go_defaults a go_defaults_mtg). Qed.
Theorem C13_no_panic : forall w a, 1 <= ga_mtg a -> exists m, millis_for_move w a = Ok m.
Proof. exact millis_never_panics. Qed.

(* non-vacuity: a concrete clock state meets every hypothesis and gives the expected numbers *)
Example C13_example :
  let a := {| ga_movetime := no_movetime; ga_bleft := 60000; ga_wleft := 5000; ga_binc := 1000; ga_winc := 0; ga_mtg := 30; ga_depth := 40 |} in
  in_range (mover_left false a) /\ in_range (mover_inc false a) /\ 1 <= ga_mtg a /\
  millis_for_move false a = Ok 2950 /\ millis_for_move true a = Ok 116 /\ allotted_ns false a = Ok 2950000000.
Proof. cbv [in_range BIG mover_left mover_inc ga_bleft ga_binc ga_mtg]. repeat split; try discriminate; try reflexivity. Qed.

Print Assumptions C13_value.
Print Assumptions C13_mover_clock.
Print Assumptions C13_bounds.
Print Assumptions C13_mono_left.
Print Assumptions C13_mono_inc.
Print Assumptions C13_anti_mtg.
Print Assumptions C13_movetime.
Print Assumptions C13_marker_is_no_argument.
Print Assumptions C13_clock_deadline.
Print Assumptions C13_parsed_mtg.
Print Assumptions C13_no_panic.
