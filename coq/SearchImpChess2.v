(* The chess instance of the capacity theorem (C18) and the value bounds of the search (mate band).
   PART A  a measure of the length of capture sequences: men count with pawns weighted twice;
   PART B  the capacity theorems relative to an invariant, instantiated with well-formed chess positions;
   PART C  every value of minimax / quiescence lies in the mate band.
   No axioms. *)
From Coq Require Import ZArith List Bool Lia Permutation ZifyBool.
Require Import Base Generated Position Attack Make Gen Count Eval Search WF Abs MakeSpec.
Require Spec.
Require Import ListProofs AttackProofs MakeProofs GenProofs CountProofs EvalProofs SearchProofs SearchImp SearchImpValue.
Require SearchImpProofs.
Open Scope Z_scope.

(* ================= PART A: the measure ================= *)
Definition wside (pieces pawns : list Z) : nat := (length pieces + 2 * length pawns)%nat.
Definition mu (p : pos) : nat :=
  (length (wpieces p) + length (bpieces p) + 2 * (length (wpawns p) + length (bpawns p)))%nat.

Lemma mu_sides p : mu p = (wside (cur_pieces p) (cur_pawns p) + wside (en_pieces p) (en_pawns p))%nat.
Proof. unfold mu, wside, cur_pieces, cur_pawns, en_pieces, en_pawns. destruct (wturn p); lia. Qed.
Lemma mu_mk_pos p b4 cp1 cw1 ck1 ep1 ew2 cK cQ eK eQ mepv :
  mu (mk_pos p b4 cp1 cw1 ck1 ep1 ew2 cK cQ eK eQ mepv) = (wside cp1 cw1 + wside ep1 ew2)%nat.
Proof. unfold mk_pos, mu, wside. destruct (wturn p); cbn [wpieces bpieces wpawns bpawns]; lia. Qed.

Theorem mu_bound : forall p, wf p = true -> (mu p <= 46)%nat.
Proof.
  intros p H. destruct (wf_facts_of p H) as [_ _ _ _ A B C D _ _ _ _ _ _ _ _].
  rewrite mu_sides. unfold wside, pawnCap, pieceCap in *. lia.
Qed.

Lemma make_inv p m p' v : make p m = Ok (p', v) ->
  exists cp1 cw1 ck1 b1 km ep1 ew1 b3 ew2,
    ph1 p m = Ok (cp1, cw1, ck1, b1, km) /\ ph3 p m b1 = Ok (ep1, ew1) /\ ph4 p m b1 ew1 = Ok (b3, ew2) /\
    p' = mk_pos p (set b3 (mfrom m) Empty) cp1 cw1 ck1 ep1 ew2 (fcK p m km) (fcQ p m km) (feK p m) (feQ p m) (mep m).
Proof.
  rewrite make_phases. intros H.
  apply SearchProofs.bind_ok in H. destruct H as ([[[[cp1 cw1] ck1] b1] km] & H1 & H).
  apply SearchProofs.bind_ok in H. destruct H as ([ep1 ew1] & H3 & H).
  apply SearchProofs.bind_ok in H. destruct H as ([b3 ew2] & H4 & H).
  inversion H. exists cp1, cw1, ck1, b1, km, ep1, ew1, b3, ew2. auto.
Qed.

(* the mover's lists: never heavier; lighter when a pawn promotes *)
Lemma ph1_weight p m cp1 cw1 ck1 b1 km : ph1 p m = Ok (cp1, cw1, ck1, b1, km) ->
  (wside cp1 cw1 <= wside (cur_pieces p) (cur_pawns p))%nat /\
  (is_pc (cur_color p) Pawn (get (board p) (mfrom m)) = true -> mpromo m <> None -> In (mfrom m) (cur_pawns p) ->
   (wside cp1 cw1 < wside (cur_pieces p) (cur_pawns p))%nat).
Proof.
  unfold ph1. cbv zeta. unfold wside.
  destruct (is_pc (cur_color p) Pawn (get (board p) (mfrom m))).
  - destruct (mpromo m) as [k|].
    + destruct (index_of (mfrom m) (cur_pawns p)) as [i|] eqn:I.
      * intros H. apply SearchProofs.bind_ok in H. destruct H as (cp & A & H). inversion H; subst.
        apply append_cap_inv in A. destruct A as [-> _].
        pose proof (kill_length _ _ _ _ (kill_of_index P_KILL_PAWN _ _ _ I)) as KL.
        rewrite app_length. cbn [length]. split; [lia|]. intros; lia.
      * intros H. inversion H; subst. split; [lia|]. intros _ _ In'. apply index_of_None in I. contradiction.
    + intros H. inversion H; subst. rewrite replace_first_length. split; [lia|]. intros _ N. contradiction.
  - assert (D : forall x : result (list Z * list Z * Z * list cell * bool), x = Ok (cp1, cw1, ck1, b1, km) ->
              (length cp1 = length (cur_pieces p) /\ cw1 = cur_pawns p) ->
              (length cp1 + 2 * length cw1 <= length (cur_pieces p) + 2 * length (cur_pawns p))%nat /\
              (false = true -> mpromo m <> None -> In (mfrom m) (cur_pawns p) ->
               (length cp1 + 2 * length cw1 < length (cur_pieces p) + 2 * length (cur_pawns p))%nat)).
    { intros x _ [E1 ->]. split; [lia | discriminate]. }
    intros H. apply (D _ H). clear D.
    destruct (mfrom m =? cur_king p).
    + destruct (fileof (mfrom m) =? 4).
      * destruct (fileof (mto m) =? 2); [inversion H; subst; rewrite replace_first_length; auto|].
        destruct (fileof (mto m) =? 6); [inversion H; subst; rewrite replace_first_length; auto|].
        inversion H; subst; auto.
      * inversion H; subst; auto.
    + inversion H; subst. rewrite replace_first_length. auto.
Qed.

(* the board after stage 1 differs from the original only for a king leaving file 4 for file 2 or 6 *)
Lemma ph1_board p m cp1 cw1 ck1 b1 km : ph1 p m = Ok (cp1, cw1, ck1, b1, km) ->
  b1 = board p \/ (mfrom m = cur_king p /\ fileof (mfrom m) = 4 /\ (fileof (mto m) = 2 \/ fileof (mto m) = 6)).
Proof.
  unfold ph1. cbv zeta.
  destruct (is_pc (cur_color p) Pawn (get (board p) (mfrom m))).
  - destruct (mpromo m) as [k|]; [destruct (index_of (mfrom m) (cur_pawns p)) as [i|]|].
    + intros H. apply SearchProofs.bind_ok in H. destruct H as (cp & A & H). inversion H; auto.
    + intros H; inversion H; auto.
    + intros H; inversion H; auto.
  - destruct (mfrom m =? cur_king p) eqn:E1; [|intros H; inversion H; auto].
    destruct (fileof (mfrom m) =? 4) eqn:E2; [|intros H; inversion H; auto].
    destruct (fileof (mto m) =? 2) eqn:E3; [intros _; right; lia|].
    destruct (fileof (mto m) =? 6) eqn:E4; [intros _; right; lia|]. intros H; inversion H; auto.
Qed.

(* the opponent's lists after the capture on the destination square *)
Lemma ph3_weight p m b1 ep1 ew1 : ph3 p m b1 = Ok (ep1, ew1) ->
  (wside ep1 ew1 <= wside (en_pieces p) (en_pawns p))%nat /\
  (get b1 (mto m) <> Empty -> is_pc (opp (cur_color p)) King (get b1 (mto m)) = false ->
   (wside ep1 ew1 < wside (en_pieces p) (en_pawns p))%nat).
Proof.
  unfold ph3. cbv zeta. unfold wside.
  destruct (get b1 (mto m)) as [|c' k'] eqn:G.
  - intros H; inversion H; subst. split; [lia|]. intros N; contradiction.
  - destruct (is_pc (opp (cur_color p)) King (Pc c' k')).
    + intros H; inversion H; subst. split; [lia|]. discriminate.
    + destruct (is_pc (opp (cur_color p)) Pawn (Pc c' k')); intros H;
        apply SearchProofs.bind_ok in H; destruct H as (l & K & H); inversion H; subst;
        apply kill_length in K; split; intros; lia.
Qed.

(* the opponent's pawns after the en-passant removal *)
Lemma ph4_weight p m b1 ew1 b3 ew2 : ph4 p m b1 ew1 = Ok (b3, ew2) ->
  (length ew2 <= length ew1)%nat /\
  (mpromo m = None -> ep p = mto m ->
   is_pc (cur_color p) Pawn (get (set b1 (mto m) (get b1 (mfrom m))) (mfrom m)) = true -> (length ew2 < length ew1)%nat).
Proof.
  unfold ph4. cbv zeta. destruct (mpromo m) as [k|].
  - intros H; inversion H; subst. split; [lia | discriminate].
  - destruct ((ep p =? mto m) && is_pc (cur_color p) Pawn (get (set b1 (mto m) (get b1 (mfrom m))) (mfrom m))) eqn:C.
    + intros H. apply SearchProofs.bind_ok in H. destruct H as (l & K & H). inversion H; subst.
      apply kill_length in K. split; intros; lia.
    + intros H; inversion H; subst. split; [lia|]. intros _ E P. rewrite E, Z.eqb_refl, P in C. discriminate.
Qed.

(* no move makes the position heavier: unconditionally *)
Theorem mu_make_le : forall p m p' v, make p m = Ok (p', v) -> (mu p' <= mu p)%nat.
Proof.
  intros p m p' v H. apply make_inv in H.
  destruct H as (cp1 & cw1 & ck1 & b1 & km & ep1 & ew1 & b3 & ew2 & H1 & H3 & H4 & ->).
  rewrite mu_mk_pos, mu_sides.
  destruct (ph1_weight _ _ _ _ _ _ _ H1) as [A _]. destruct (ph3_weight _ _ _ _ _ H3) as [B _].
  destruct (ph4_weight _ _ _ _ _ _ H4) as [C _]. unfold wside in *. lia.
Qed.

Lemma make_legal_make p m p' : make_legal p m = Ok p' -> make p m = Ok (p', true).
Proof.
  unfold make_legal. intros H. apply SearchProofs.bind_ok in H. destruct H as ([q v] & M & H).
  cbn [fst snd] in H. destruct v; inversion H. subst. exact M.
Qed.

Theorem mu_legal_any : forall p m p', make_legal p m = Ok p' -> (mu p' <= mu p)%nat.
Proof. intros p m p' H. eapply mu_make_le. apply make_legal_make. exact H. Qed.

(* a capture, an en-passant capture or a promotion makes the position strictly lighter *)
Lemma enemy_not_king c x : is_col (opp c) x = true -> x <> Pc (opp c) King -> is_pc (opp c) King x = false.
Proof.
  destruct x as [|c' k']; [discriminate|]. cbn. intros H N. rewrite H. cbn.
  destruct k'; try reflexivity. exfalso. apply N. f_equal. symmetry. apply color_eqb_eq. exact H.
Qed.

Theorem mu_make_tactical : forall p m p' v, wf p = true -> not_capturable p = true ->
  validb (mfrom m) = true -> validb (mto m) = true -> Spec.pseudo (abs p) (absm m) = true ->
  tacm p m = true -> make p m = Ok (p', v) -> (mu p' < mu p)%nat.
Proof.
  intros p [from to promo mepv] p' v Hwf Hnc Vf Vt P T H. cbn [mfrom mto] in Vf, Vt.
  destruct (sqrep_of_valid _ Vf) as (ff & fr & Rf). destruct (sqrep_of_valid _ Vt) as (tf & tr & Rt).
  destruct (pseudo_inv p from to promo mepv ff fr tf tr Rf Rt P) as (k & Hfrom & Hto & Hk).
  pose proof (wf_facts_of p Hwf) as W. pose proof (wl_len p W) as Hlen.
  apply make_inv in H.
  destruct H as (cp1 & cw1 & ck1 & b1 & km & ep1 & ew1 & b3 & ew2 & H1 & H3 & H4 & ->).
  rewrite mu_mk_pos, mu_sides.
  destruct (ph1_weight _ _ _ _ _ _ _ H1) as [A A']. destruct (ph3_weight _ _ _ _ _ H3) as [B B'].
  destruct (ph4_weight _ _ _ _ _ _ H4) as [C C']. cbn [mfrom mto mpromo] in A', B', C'.
  pose proof (ph1_board _ _ _ _ _ _ _ H1) as BD. cbn [mfrom mto] in BD.
  rewrite (sr_file _ _ _ Rf), (sr_file _ _ _ Rt) in BD.
  assert (KC : from = cur_king p -> k = King).
  { intros E. pose proof (king_cell p Hwf) as KCell. rewrite <- E, Hfrom in KCell. inversion KCell; reflexivity. }
  assert (FT : from <> to).
  { intros E. rewrite <- E, Hfrom in Hto. cbn in Hto. rewrite color_eqb_refl in Hto. discriminate. }
  pose proof (validb_range _ Vf) as [RGf _]. pose proof (validb_range _ Vt) as [RGt _].
  destruct promo as [kp|].
  { (* promotion *)
    assert (k = Pawn) as -> by (destruct k; try reflexivity; destruct Hk as [Hk _]; discriminate Hk).
    assert (I : In from (cur_pawns p)).
    { destruct (wl_cur p W) as [_ [Hpw _]]. apply (LQ_In _ _ _ _ Hpw Vf). rewrite Hfrom. unfold qpawn. cbn.
      rewrite color_eqb_refl. reflexivity. }
    assert (S : (wside cp1 cw1 < wside (cur_pieces p) (cur_pawns p))%nat).
    { apply A'; [rewrite Hfrom; cbn; rewrite color_eqb_refl; reflexivity | discriminate | exact I]. }
    unfold wside in *. clear - A B C S. lia. }
  unfold tacm in T. cbn [mfrom mto mpromo] in T. rewrite orb_false_r in T. apply orb_prop in T as [T|T].
  - (* capture *)
    destruct (MakeProofs.is_col_opp _ _ T) as [_ NE].
    assert (G : Spec.attacks (abs_board (board p)) (ff, fr) (tf, tr) = true /\ (k = King -> tf - ff <> 2 /\ tf - ff <> -2)).
    { destruct k.
      - destruct Hk as [_ [Hk|[Hk|Hk]]].
        + destruct Hk as (_ & _ & E). congruence.
        + destruct Hk as (_ & _ & _ & _ & E). congruence.
        + destruct Hk as (D1 & D2 & _). split; [|discriminate].
          unfold Spec.attacks. rewrite (B_from p from ff fr Rf Pawn Hfrom). unfold Spec.piece_attacks. cbv zeta. cbn [fst snd].
          clear - D1 D2. lia.
      - destruct Hk as [_ Hk]. split; [exact Hk | discriminate].
      - destruct Hk as [_ Hk]. split; [exact Hk | discriminate].
      - destruct Hk as [_ Hk]. split; [exact Hk | discriminate].
      - destruct Hk as [_ Hk]. split; [exact Hk | discriminate].
      - destruct Hk as [_ [Hk|[Hk|Hk]]].
        + split; [exact Hk|]. intros _. unfold Spec.attacks in Hk. rewrite (B_from p from ff fr Rf King Hfrom) in Hk.
          unfold Spec.piece_attacks in Hk. cbv zeta in Hk. cbn [fst snd] in Hk. clear - Hk. lia.
        + exfalso. destruct Hk as (E1 & E2 & E3 & E4 & CO). unfold Spec.castle_ok in CO.
          repeat match type of CO with (_ && _) = true => let H' := fresh "CO" in apply andb_prop in CO as [CO H'] end.
          cbn [abs Spec.brd Spec.turn] in CO3.
          pose proof (sr_f _ _ _ Rt). pose proof (sr_r _ _ _ Rt).
          replace (6, Spec.home_rank (cur_color p)) with (tf, tr) in CO3 by (f_equal; clear - E1 E2 E3 E4; lia).
          rewrite empty_fr in CO3 by assumption. rewrite <- (sr_eq _ _ _ Rt) in CO3. apply is_empty_eq in CO3. congruence.
        + exfalso. destruct Hk as (E1 & E2 & E3 & E4 & CO). unfold Spec.castle_ok in CO.
          repeat match type of CO with (_ && _) = true => let H' := fresh "CO" in apply andb_prop in CO as [CO H'] end.
          cbn [abs Spec.brd Spec.turn] in CO4.
          pose proof (sr_f _ _ _ Rt). pose proof (sr_r _ _ _ Rt).
          replace (2, Spec.home_rank (cur_color p)) with (tf, tr) in CO4 by (f_equal; clear - E1 E2 E3 E4; lia).
          rewrite empty_fr in CO4 by assumption. rewrite <- (sr_eq _ _ _ Rt) in CO4. apply is_empty_eq in CO4. congruence. }
    destruct G as [G GK].
    assert (Hnk : get (board p) to <> Pc (opp (cur_color p)) King).
    { apply (no_king_capture p from to k Hwf Hnc Vf Vt Hfrom). rewrite (sr_coords _ _ _ Rf), (sr_coords _ _ _ Rt). exact G. }
    assert (E1 : b1 = board p).
    { destruct BD as [BD|(E & F4 & F26)]; [exact BD|]. exfalso. destruct (GK (KC E)) as [N1 N2]. clear - F4 F26 N1 N2. lia. }
    subst b1.
    assert (S : (wside ep1 ew1 < wside (en_pieces p) (en_pawns p))%nat).
    { apply B'; [exact NE | apply enemy_not_king; assumption]. }
    unfold wside in *. lia.
  - (* en passant *)
    apply andb_prop in T as [T T3]. apply andb_prop in T as [T1 T2].
    rewrite (sr_coords _ _ _ Rf), (sr_coords _ _ _ Rt) in T2. cbn [fst] in T2.
    rewrite Hfrom in T1. cbn in T1. apply andb_prop in T1 as [_ T1].
    assert (k = Pawn) as -> by (destruct k; try discriminate T1; reflexivity).
    apply is_empty_eq in T3.
    destruct Hk as [_ [Hk|[Hk|Hk]]]; [clear - Hk T2; lia | clear - Hk T2; lia |].
    destruct Hk as (_ & _ & [Hk|(_ & EO & EC)]).
    { rewrite T3 in Hk. discriminate Hk. }
    assert (EP : ep p = to).
    { destruct (wl_ep p W) as [EI|EV].
      - rewrite EI in EO. discriminate EO.
      - cbv zeta in EV. destruct EV as [EV _]. apply (coords_inj _ _ EV Vt). rewrite EC, (sr_coords _ _ _ Rt). reflexivity. }
    assert (E1 : b1 = board p).
    { destruct BD as [BD|(E & _)]; [exact BD|]. specialize (KC E). discriminate KC. }
    subst b1.
    assert (S : (length ew2 < length ew1)%nat).
    { apply C'; [reflexivity | exact EP |].
      rewrite get_set_if by (try exact Hlen; clear - RGf RGt; lia). destruct (Z.eqb_spec from to) as [E|_]; [contradiction|].
      rewrite Hfrom. cbn [is_pc kind_eqb]. rewrite color_eqb_refl. reflexivity. }
    unfold wside in *. clear - A B C S. lia.
Qed.

Theorem mu_dec_chess : forall p tms m p', wf_legal p = true -> ply p + 1 < 32767 ->
  gen_tactical p = Ok tms -> In m tms -> make_legal p (rm m) = Ok p' -> (mu p' < mu p)%nat.
Proof.
  intros p tms m p' Hl Hp G I ML.
  rewrite (gen_tactical_guards_ok make_spec p Hl Hp) in G. inversion G; subst tms. clear G.
  rewrite gen_tactical_pure_filter in I. apply filter_In in I as [I T].
  unfold gen_legal_pure in I. apply filter_In in I as [I _].
  pose proof (wf_of_legal p Hl) as Hwf.
  assert (Hnc : not_capturable p = true) by (unfold wf_legal in Hl; apply andb_prop in Hl; tauto).
  destruct (gen_pseudo_sound p (rm m) Hwf (in_map rm _ _ I)) as (V1 & V2 & _ & P).
  rewrite (flag_pseudo p m Hwf I) in T.
  eapply mu_make_tactical; eauto. apply make_legal_make. exact ML.
Qed.

Theorem mu_legal_chess : forall p ms m p', wf_legal p = true -> ply p + 1 < 32767 ->
  gen_legal p = Ok ms -> In m ms -> make_legal p (rm m) = Ok p' -> (mu p' <= mu p)%nat.
Proof. intros p ms m p' _ _ _ _ ML. eapply mu_legal_any; exact ML. Qed.

(* ================= the invariant: well-formed chess positions with ply head-room ================= *)
Definition chess_inv (n : nat) (p : pos) : Prop := wf_legal p = true /\ ply p + Z.of_nat n + 1 < 32767.

Lemma chess_inv_mono n p : chess_inv (S n) p -> chess_inv n p.
Proof. unfold chess_inv. intros [A B]. split; [exact A | lia]. Qed.

Lemma chess_inv_legal_step n p ms m p' : chess_inv (S n) p -> gen_legal p = Ok ms -> In m ms ->
  make_legal p (rm m) = Ok p' -> chess_inv n p'.
Proof.
  intros [Hl Hp] G I ML. assert (Hp1 : ply p + 1 < 32767) by lia.
  rewrite (gen_guards_ok make_spec p Hl Hp1) in G. inversion G; subst ms.
  destruct (make_legal_generated make_spec p m Hl Hp1 I) as (q & ML' & Hl' & PL & _).
  rewrite ML in ML'. inversion ML'; subst q. split; [exact Hl' | lia].
Qed.

Lemma chess_inv_tactical_step n p tms m p' : chess_inv (S n) p -> gen_tactical p = Ok tms -> In m tms ->
  make_legal p (rm m) = Ok p' -> chess_inv n p'.
Proof.
  intros [Hl Hp] G I ML. assert (Hp1 : ply p + 1 < 32767) by lia.
  rewrite (gen_tactical_guards_ok make_spec p Hl Hp1) in G. inversion G; subst tms.
  rewrite gen_tactical_pure_filter in I. apply filter_In in I as [I _].
  eapply chess_inv_legal_step; [split; [exact Hl | exact Hp] | apply (gen_guards_ok make_spec p Hl Hp1) | exact I | exact ML].
Qed.

(* ================= PART C: the mate band ================= *)
(* deepest search ply for which the evaluation band [-20800, 20800] lies inside the mate band of that ply *)
Definition bandDepth : Z := 79000.

Lemma lazy_eval_range : forall p depth a b, wf p = true -> 0 <= depth <= bandDepth ->
  LostScore + depth <= lazy_eval p depth a b <= ScoreCloseToMate.
Proof.
  intros p depth a b H D. unfold lazy_eval.
  pose proof (psq_score_band p H) as B. pose proof (count_moves_bound p H) as C1.
  pose proof (count_moves_flip_bound p H) as C2. cbv zeta.
  unfold bandDepth, LostScore, fullEvalScoreMargin, MobilityScoreFactor, DrawScore, ScoreCloseToMate in *.
  set (ms := psq_score p) in *. set (c1 := count_moves p) in *. set (c2 := count_moves (flip_turn p)) in *.
  clearbody ms c1 c2. destruct (is_checkmate p); [lia|].
  match goal with |- context [if ?c then ms else _] => destruct c end; [lia|].
  destruct (c1 * 5 =? 0); lia.
Qed.

Lemma evaluate_range : forall p depth, wf p = true -> 0 <= depth <= bandDepth ->
  LostScore + depth <= evaluate p depth <= ScoreCloseToMate.
Proof. intros. unfold evaluate. apply lazy_eval_range; assumption. Qed.

Lemma terminal_score_range : forall p depth, 0 <= depth <= bandDepth ->
  LostScore + depth <= terminal_score p depth <= DrawScore.
Proof. intros p depth D. unfold terminal_score, bandDepth, LostScore, DrawScore in *. destruct (in_check p); lia. Qed.

Lemma chess_inv_wf n p : chess_inv n p -> wf p = true.
Proof. intros [A _]. exact (wf_of_legal p A). Qed.

(* quiescence reference: the value lies in the mate band of its ply *)
Lemma mm_quiesce_range : forall fuel p depth v n, chess_inv n p -> (fuel <= n)%nat ->
  0 <= depth -> depth + Z.of_nat fuel <= bandDepth ->
  mm_quiesce fuel p depth = Ok v -> LostScore + depth <= v <= - LostScore - depth - 1.
Proof.
  induction fuel as [|f IH]; intros p depth v n I F D0 D1 H; [discriminate H|].
  rewrite mm_quiesce_eq in H. apply SearchProofs.bind_ok in H. destruct H as (tms & G & R).
  pose proof (evaluate_range p depth (chess_inv_wf _ _ I) ltac:(lia)) as E.
  pose proof (rfold_ge _ _ _ _ _ R) as Rge.
  destruct n as [|n']; [lia|].
  assert (Rle : v <= - LostScore - depth - 1).
  { eapply rfold_le; [ | | exact R].
    - intros m p' w In' ML Hw. cbv beta in Hw.
      pose proof (chess_inv_tactical_step _ _ _ _ _ I G In' ML) as I'.
      specialize (IH p' (depth + 1) w n' I' ltac:(lia) ltac:(lia) ltac:(lia) Hw). lia.
    - unfold bandDepth, LostScore, ScoreCloseToMate in *. lia. }
  lia.
Qed.

(* the reference minimax: the value lies in the mate band of its ply *)
Theorem minimax_range_gen : forall d p depth v n, chess_inv n p -> (d + qfuel <= n)%nat ->
  0 <= depth -> depth + Z.of_nat d + Z.of_nat qfuel <= bandDepth ->
  minimax d p depth = Ok v -> LostScore + depth <= v <= - LostScore - depth - 1.
Proof.
  induction d as [|k IH]; intros p depth v n I F D0 D1 H.
  - eapply mm_quiesce_range; [exact I | | exact D0 | | exact H]; lia.
  - rewrite minimax_eq in H. apply SearchProofs.bind_ok in H. destruct H as (ms & G & H).
    destruct n as [|n']; [lia|].
    assert (CH : forall m p' w, In m ms -> make_legal p (rm m) = Ok p' -> minimax k p' (depth + 1) = Ok w ->
                 LostScore + depth + 2 <= - w <= - LostScore - depth - 1).
    { intros m p' w In' ML Hw. pose proof (chess_inv_legal_step _ _ _ _ _ I G In' ML) as I'.
      specialize (IH p' (depth + 1) w n' I' ltac:(lia) ltac:(lia) ltac:(lia) Hw). lia. }
    destruct ms as [|m0 r0].
    + inversion H; subst v. pose proof (terminal_score_range p depth ltac:(lia)).
      unfold bandDepth, LostScore, DrawScore in *. lia.
    + apply SearchProofs.bind_ok in H. destruct H as (p0 & M0 & H). apply SearchProofs.bind_ok in H. destruct H as (w0 & R0 & R).
      pose proof (CH m0 p0 w0 (or_introl eq_refl) M0 R0) as C0.
      pose proof (rfold_ge _ _ _ _ _ R) as Rge.
      assert (Rle : v <= - LostScore - depth - 1).
      { eapply rfold_le; [ | | exact R].
        - intros m p' w In' ML Hw. cbv beta in Hw. apply (CH m p' w (or_intror In') ML Hw).
        - lia. }
      lia.
Qed.

(* for the plies the engine can reach: search depth <= 40 (MaxSearchDepth), current ply <= 200 (plyBufferCapacity) *)
Theorem minimax_range : forall d p depth v, wf_legal p = true -> ply p + Z.of_nat d + Z.of_nat qfuel + 1 < 32767 ->
  0 <= depth -> depth + Z.of_nat d + Z.of_nat qfuel <= bandDepth ->
  minimax d p depth = Ok v -> LostScore + depth <= v <= - LostScore - depth - 1.
Proof.
  intros d p depth v Hl Hp D0 D1 H.
  eapply (minimax_range_gen d p depth v (d + qfuel)); [split; [exact Hl | lia] | lia | exact D0 | exact D1 | exact H].
Qed.

(* (2) the mate-in-one premise of root_search_value / root_search_i_value *)
Theorem chess_mate_in_one_premise : forall d p, wf_legal p = true -> ply p + Z.of_nat d + Z.of_nat qfuel + 2 < 32767 ->
  Z.of_nat d + Z.of_nat qfuel + 1 <= bandDepth ->
  forall ms m p' w, gen_legal p = Ok ms -> In m ms -> make_legal p (rm m) = Ok p' -> minimax d p' 1 = Ok w ->
  - w <= - LostScore - 1.
Proof.
  intros d p Hl Hp D ms m p' w G I ML Hw.
  assert (I0 : chess_inv (S (d + qfuel)) p) by (split; [exact Hl | lia]).
  pose proof (chess_inv_legal_step _ _ _ _ _ I0 G I ML) as I'.
  pose proof (minimax_range_gen d p' 1 w (d + qfuel) I' ltac:(lia) ltac:(lia) ltac:(lia) Hw). lia.
Qed.

(* and the root value itself is in the band, in particular above the sentinel -Infinity *)
Theorem chess_root_value_gt_minus_inf : forall d p v, wf_legal p = true -> ply p + Z.of_nat d + Z.of_nat qfuel + 1 < 32767 ->
  Z.of_nat d + Z.of_nat qfuel <= bandDepth -> minimax d p 0 = Ok v -> - InfinityScore < v.
Proof.
  intros d p v Hl Hp D H. pose proof (minimax_range d p 0 v Hl Hp ltac:(lia) ltac:(lia) H).
  unfold InfinityScore, LostScore in *. lia.
Qed.

(* ================= PART B: capacity relative to an invariant ================= *)
Section CapacityInv.
Variable order : killer_table -> list move -> Z -> pos -> list rmove -> list rmove.
Hypothesis order_incl : forall k c d p l m, In m (order k c d p l) -> In m l.
Variable log_interval : Z.
(* [Inv n p]: p is a good position with head-room for n more plies *)
Variable Inv : nat -> pos -> Prop.
Variable mu : pos -> nat.
Hypothesis inv_legal_step : forall n p ms m p', Inv (S n) p -> gen_legal p = Ok ms -> In m ms ->
  make_legal p (rm m) = Ok p' -> Inv n p'.
Hypothesis inv_tactical_step : forall n p tms m p', Inv (S n) p -> gen_tactical p = Ok tms -> In m tms ->
  make_legal p (rm m) = Ok p' -> Inv n p'.
Hypothesis mu_dec : forall n p tms m p', Inv (S n) p -> gen_tactical p = Ok tms -> In m tms ->
  make_legal p (rm m) = Ok p' -> (mu p' < mu p)%nat.
Hypothesis mu_legal : forall n p ms m p', Inv (S n) p -> gen_legal p = Ok ms -> In m ms ->
  make_legal p (rm m) = Ok p' -> (mu p' <= mu p)%nat.

Lemma quiesce_i_cap_inv : forall fuel cand st a b depth p w n,
  top st = Ok p -> ply_idx st = depth -> Inv n p -> (mu p < n)%nat ->
  depth + Z.of_nat (mu p) + 1 < pvTableRows -> depth + Z.of_nat (mu p) + 1 < plyBufferCapacity -> (mu p < fuel)%nat ->
  quiesce_i order log_interval fuel cand st a b depth = Panic w -> ~ cap_panic w.
Proof.
  induction fuel as [|f IH]; intros cand st a b depth p w n T D I N R C F H; [lia|].
  destruct n as [|n']; [lia|].
  rewrite quiesce_i_eq in H. unfold row_ok in H. destruct (depth + 1 <? pvTableRows) eqn:E; [|lia]. cbn [negb] in H.
  rewrite (lazy_eval_st_eq _ _ _ _ _ T) in H. cbn [bind] in H. cbv beta iota in H.
  apply bind_panic in H. destruct H as [H | (st2 & CM & H)]; [eapply currmove_step_panic; exact H|].
  apply currmove_step_keeps in CM.
  pose proof (keeps_trans _ _ _ (keeps_set_nodes st (st_nodes st + 1)) CM) as K.
  pose proof (keeps_top' _ _ _ K T) as T2. pose proof (keeps_ply _ _ K) as D2. rewrite D in D2.
  destruct (lazy_eval p depth a b >=? b); [discriminate H|].
  destruct (if lazy_eval p depth a b >? a then (lazy_eval p depth a b, Some []) else (a, None)) as [alpha1 line1].
  rewrite T2 in H. cbn [bind] in H.
  apply bind_panic in H. destruct H as [H | (tms & G & H)]; [eapply gen_tactical_panic; exact H|].
  eapply q_loop_cap with (okm := fun p' => Inv n' p' /\ (mu p' < mu p)%nat); [ | | | exact T2 | exact D2 | | exact H].
  - intros stp x y c Hc. eapply quiesce_i_keeps; exact Hc.
  - intros stp p' x y w' T' D' [I' O'] Hc. eapply (IH _ _ _ _ _ p' w' n'); [exact T' | exact D' | exact I' | | | | | exact Hc]; lia.
  - lia.
  - intros m p' In' M. apply order_incl in In'. split; [eapply inv_tactical_step | eapply mu_dec]; eauto.
Qed.

Theorem alpha_beta_i_capacity_inv : forall d cand st a b depth p w n,
  top st = Ok p -> ply_idx st = depth -> Inv n p -> (d + mu p < n)%nat ->
  Z.of_nat d + depth + Z.of_nat (mu p) + 1 < pvTableRows ->
  Z.of_nat d + depth + Z.of_nat (mu p) + 1 < plyBufferCapacity ->
  (mu p < qfuel)%nat ->
  alpha_beta_i order log_interval d cand st a b depth = Panic w -> ~ cap_panic w.
Proof.
  induction d as [|k IH]; intros cand st a b depth p w n T D I N R C F H.
  - rewrite alpha_beta_i_eq0 in H. unfold row_ok in H. destruct (depth + 1 <? pvTableRows) eqn:E; [|lia]. cbn [negb] in H.
    eapply quiesce_i_cap_inv; [exact T | exact D | exact I | | | | exact F | exact H]; lia.
  - destruct n as [|n']; [lia|].
    rewrite alpha_beta_i_eq in H. unfold row_ok in H. destruct (depth + 1 <? pvTableRows) eqn:E; [|lia]. cbn [negb] in H.
    rewrite T in H. cbn [bind] in H.
    apply bind_panic in H. destruct H as [H | (ms & G & H)]; [eapply gen_legal_panic; exact H|].
    destruct ms as [|m0 ms].
    + unfold terminal_score_st in H. rewrite T in H. discriminate H.
    + eapply ab_loop_i_cap with (okm := fun p' => Inv n' p' /\ (mu p' <= mu p)%nat); [ | | | exact T | exact D | | exact H].
      * intros stp x y c Hc. eapply alpha_beta_i_keeps; exact Hc.
      * intros stp p' x y w' T' D' [I' O'] Hc. eapply (IH _ _ _ _ _ p' w' n'); [exact T' | exact D' | exact I' | | | | | exact Hc]; lia.
      * lia.
      * intros m p' In' M. apply order_incl in In'. split; [eapply inv_legal_step | eapply mu_legal]; eauto.
Qed.

Theorem root_search_i_capacity_inv : forall target cand st p w n,
  top st = Ok p -> ply_idx st = 0 -> Inv n p -> (pred target + 1 + mu p < n)%nat ->
  Z.of_nat (pred target) + 1 + Z.of_nat (mu p) + 1 < pvTableRows ->
  Z.of_nat (pred target) + 1 + Z.of_nat (mu p) + 1 < plyBufferCapacity ->
  (mu p < qfuel)%nat ->
  root_search_i order log_interval target cand st = Panic w -> ~ cap_panic w.
Proof.
  intros target cand st p w n T D I N R C F H.
  destruct n as [|n']; [lia|].
  rewrite root_search_i_eq in H. unfold row_ok in H. destruct (0 + 1 <? pvTableRows) eqn:E; [|lia]. cbn [negb] in H.
  rewrite T in H. cbn [bind] in H.
  apply bind_panic in H. destruct H as [H | (ms & G & H)]; [eapply gen_legal_panic; exact H|].
  destruct ms as [|m0 ms].
  - unfold terminal_score_st in H. rewrite T in H. discriminate H.
  - cbv zeta in H. apply bind_panic in H. destruct H as [H | (r & _ & H)]; [|discriminate H].
    eapply root_loop_i_cap with (okm := fun p' => Inv n' p' /\ (mu p' <= mu p)%nat) (depth := 0); [ | | | exact T | exact D | | exact H].
    + intros stp x y c Hc. eapply alpha_beta_i_keeps; exact Hc.
    + intros stp p' x y w' T' D' [I' O'] Hc.
      eapply (alpha_beta_i_capacity_inv _ _ _ _ _ _ p' w' n'); [exact T' | exact D' | exact I' | | | | | exact Hc]; lia.
    + lia.
    + intros m p' In' M. apply order_incl in In'. split; [eapply inv_legal_step | eapply mu_legal]; eauto.
Qed.

Section IterInv.
Variable max_depth : nat.
Variable p : pos.
Variable n : nat.
Hypothesis inv_p : Inv n p.
Hypothesis n_ok : (Nat.max 1 max_depth + mu p < n)%nat.
Hypothesis rows_ok : Z.of_nat (Nat.max 1 max_depth) + Z.of_nat (mu p) + 1 < pvTableRows.
Hypothesis stack_ok : Z.of_nat (Nat.max 1 max_depth) + Z.of_nat (mu p) + 1 < plyBufferCapacity.
Hypothesis fuel_ok : (mu p < qfuel)%nat.

Lemma deepen_i_cap_inv : forall fuel d score done_ best st w,
  top st = Ok p -> ply_idx st = 0 -> (1 <= d)%nat ->
  deepen_i order log_interval max_depth fuel d score done_ best st = Panic w -> ~ cap_panic w.
Proof.
  induction fuel as [|f IH]; intros d score done_ best st w T D D1 H; [discriminate H|].
  cbn [deepen_i] in H. destruct (max_depth <? d)%nat eqn:E; [discriminate H|].
  apply Nat.ltb_ge in E.
  apply bind_panic in H. destruct H as [H | ([s one'] & RS & H)].
  - eapply (root_search_i_capacity_inv d best st p w n); [exact T | exact D | exact inv_p | | | | exact fuel_ok | exact H]; lia.
  - pose proof (root_search_i_keeps _ _ _ _ _ _ _ RS) as K.
    pose proof (keeps_time_up (ist s)) as K2. destruct (time_up (ist s)) as [up st']. cbn [snd] in K2.
    pose proof (keeps_trans _ _ _ K K2) as K3.
    destruct up; [discriminate H|]. destruct (st_intr st'); [discriminate H|].
    destruct (iline s) as [[|m l]|].
    + inversion H. unfold cap_panic, P_EMPTY_LINE, P_PV_ROW, P_STACK, P_FUEL. lia.
    + cbv zeta in H. destruct ((plies_to_mate (iv s) =? Z.of_nat d) || one'); [discriminate H|].
      pose proof (keeps_trans _ _ _ K3 (keeps_emit st' (EvInfoDepth (Z.of_nat d) (iv s) (st_nodes st') (m :: l)))) as K4.
      eapply IH; [ | | | exact H].
      * eapply keeps_top'; [exact K4 | exact T].
      * rewrite (keeps_ply _ _ K4). exact D.
      * lia.
    + inversion H. unfold cap_panic, P_STALE_PV, P_PV_ROW, P_STACK, P_FUEL. lia.
Qed.

Theorem iterate_i_capacity_inv : forall st0 w,
  top st0 = Ok p -> ply_idx st0 = 0 ->
  iterate_i order log_interval max_depth st0 = Panic w -> ~ cap_panic w.
Proof.
  intros st0 w T D H. rewrite iterate_i_eq in H. cbv zeta in H.
  assert (K0 : keeps st0 (set_nodes (set_intr st0 false) 0)).
  { split; [reflexivity|]. unfold quiet. cbn. tauto. }
  pose proof (keeps_top' _ _ _ K0 T) as T0. pose proof (keeps_ply _ _ K0) as D0. rewrite D in D0.
  set (st := set_nodes (set_intr st0 false) 0) in *. clearbody st.
  apply bind_panic in H. destruct H as [H | ([s1 one] & RS & H)].
  - eapply (root_search_i_capacity_inv 1%nat [] st p w n); [exact T0 | exact D0 | exact inv_p | | | | exact fuel_ok | exact H];
      cbn [pred]; lia.
  - pose proof (root_search_i_keeps _ _ _ _ _ _ _ RS) as K.
    destruct (iline s1) as [best1|].
    2:{ inversion H. unfold cap_panic, P_STALE_PV, P_PV_ROW, P_STACK, P_FUEL. lia. }
    pose proof (keeps_time_up (ist s1)) as K2. destruct (time_up (ist s1)) as [up1 st1]. cbn [snd] in K2.
    pose proof (keeps_trans _ _ _ K K2) as K3.
    apply bind_panic in H. destruct H as [H | ([[[sc dn] bs] sf] & _ & H)].
    + destruct (up1 || st_intr st1 || one || match best1 with [] => true | _ :: _ => false end); [discriminate H|].
      eapply deepen_i_cap_inv; [ | | | exact H].
      * eapply keeps_top'; [exact K3 | exact T0].
      * rewrite (keeps_ply _ _ K3). exact D0.
      * lia.
    + destruct bs; discriminate H.
Qed.
End IterInv.
End CapacityInv.

(* ---------- the chess instance ---------- *)
Theorem chess_iterate_i_capacity : forall order,
  (forall k c d p l m, In m (order k c d p l) -> In m l) ->
  forall log_interval max_depth p st0 w,
  wf_legal p = true -> ply p + 200 < 32767 -> (max_depth <= 40)%nat ->
  top st0 = Ok p -> ply_idx st0 = 0 ->
  iterate_i order log_interval max_depth st0 = Panic w -> ~ cap_panic w.
Proof.
  intros order order_incl log_interval max_depth p st0 w Hl Hp Hd T D H.
  pose proof (mu_bound p (wf_of_legal p Hl)) as MB.
  eapply (iterate_i_capacity_inv order order_incl log_interval chess_inv mu) with (n := 100%nat) (p := p) (max_depth := max_depth);
    [ | | | | | | | | | exact T | exact D | exact H ].
  - intros; eapply chess_inv_legal_step; eauto.
  - intros; eapply chess_inv_tactical_step; eauto.
  - intros n q tms m q' [Hl' Hp'] G I ML. eapply mu_dec_chess; eauto. lia.
  - intros n q ms m q' _ _ _ ML. eapply mu_legal_any; exact ML.
  - split; [exact Hl | lia].
  - lia.
  - unfold pvTableRows. lia.
  - unfold plyBufferCapacity. lia.
  - unfold qfuel. lia.
Qed.

Theorem chess_root_search_i_capacity : forall order,
  (forall k c d p l m, In m (order k c d p l) -> In m l) ->
  forall log_interval target cand p st w,
  wf_legal p = true -> ply p + 200 < 32767 -> (target <= 40)%nat ->
  top st = Ok p -> ply_idx st = 0 ->
  root_search_i order log_interval target cand st = Panic w -> ~ cap_panic w.
Proof.
  intros order order_incl log_interval target cand p st w Hl Hp Hd T D H.
  pose proof (mu_bound p (wf_of_legal p Hl)) as MB.
  eapply (root_search_i_capacity_inv order order_incl log_interval chess_inv mu) with (n := 100%nat) (p := p);
    [ | | | | exact T | exact D | | | | | | exact H ].
  - intros; eapply chess_inv_legal_step; eauto.
  - intros; eapply chess_inv_tactical_step; eauto.
  - intros n q tms m q' [Hl' Hp'] G I ML. eapply mu_dec_chess; eauto. lia.
  - intros n q ms m q' _ _ _ ML. eapply mu_legal_any; exact ML.
  - split; [exact Hl | lia].
  - lia.
  - unfold pvTableRows. lia.
  - unfold plyBufferCapacity. lia.
  - unfold qfuel. lia.
Qed.

(* ================= PART C (1): quiescence values of the state machine, for ALL oracle streams ================= *)
Section QBounds.
Variable order : killer_table -> list move -> Z -> pos -> list rmove -> list rmove.
Hypothesis order_incl : forall k c d p l m, In m (order k c d p l) -> In m l.
Variable log_interval : Z.

(* fail-hard, lower side: the loop returns beta or something not below its starting alpha *)
Lemma q_loop_lower child beta l : forall alpha line st r,
  q_loop child beta l alpha line st = Ok r -> Z.min beta alpha <= iv r.
Proof.
  induction l as [|m l IH]; intros alpha line st r H.
  - inversion H. cbn. lia.
  - cbn [q_loop] in H. apply SearchProofs.bind_ok in H. destruct H as (stp & _ & H).
    apply SearchProofs.bind_ok in H. destruct H as (c & _ & H). cbv zeta in H.
    destruct (check_up (poll (pop (ist c)))) as [up st''].
    destruct up; [inversion H; cbn [iv ir]; lia|].
    destruct (- iv c >=? beta) eqn:E1; [inversion H; cbn [iv ir]; lia|].
    destruct (- iv c >? alpha) eqn:E2.
    + apply SearchProofs.bind_ok in H. destruct H as (ln & _ & H). apply IH in H. clear - H E1 E2. lia.
    + apply IH in H. clear - H E1 E2. lia.
Qed.

Section QUp.
Variable child : sst -> Z -> Z -> result ires.
Variable p : pos.
Variable okm : pos -> Prop.
Variable U : Z.
Hypothesis child_keeps : forall stp a b c, child stp a b = Ok c -> keeps stp (ist c).
Hypothesis child_lower : forall stp p' x y c, top stp = Ok p' -> okm p' -> child stp x y = Ok c -> Z.min y (- U) <= iv c.

Lemma q_loop_upper beta l : forall alpha line st r,
  top st = Ok p -> (forall m p', In m l -> make_legal p (rm m) = Ok p' -> okm p') ->
  q_loop child beta l alpha line st = Ok r -> iv r <= Z.max alpha U.
Proof.
  induction l as [|m l IH]; intros alpha line st r T OK H.
  - inversion H. cbn. lia.
  - cbn [q_loop] in H. apply SearchProofs.bind_ok in H. destruct H as (stp & P & H).
    apply SearchProofs.bind_ok in H. destruct H as (c & C & H). cbv zeta in H.
    destruct (push_top _ _ _ _ P T) as (p' & M & T' & _).
    pose proof (child_lower stp p' _ _ c T' (OK m p' (or_introl eq_refl) M) C) as LB.
    pose proof (keeps_trans _ _ _ (keeps_push_pop _ _ _ _ P (child_keeps _ _ _ _ C)) (keeps_poll (pop (ist c)))) as K1.
    pose proof (keeps_check_up (poll (pop (ist c)))) as K2. destruct (check_up (poll (pop (ist c)))) as [up st''].
    cbn [snd] in K2. pose proof (keeps_top' _ _ _ (keeps_trans _ _ _ K1 K2) T) as T2.
    assert (OK' : forall m p', In m l -> make_legal p (rm m) = Ok p' -> okm p') by (intros; eapply OK; eauto; right; assumption).
    destruct up; [inversion H; cbn [iv ir]; lia|].
    destruct (- iv c >=? beta) eqn:E1; [inversion H; cbn [iv ir]; clear - LB E1; lia|].
    destruct (- iv c >? alpha) eqn:E2.
    + apply SearchProofs.bind_ok in H. destruct H as (ln & _ & H). apply (IH _ _ _ _ T2 OK') in H. clear - H LB E1 E2. lia.
    + apply (IH _ _ _ _ T2 OK') in H. clear - H LB E1 E2. lia.
Qed.
End QUp.

Theorem quiesce_i_lower : forall fuel cand st a b depth r p,
  top st = Ok p -> wf p = true -> 0 <= depth <= bandDepth ->
  quiesce_i order log_interval fuel cand st a b depth = Ok r -> Z.min b (LostScore + depth) <= iv r.
Proof.
  intros [|f] cand st a b depth r p T Hwf D H; [discriminate H|].
  rewrite quiesce_i_eq in H. destruct (negb (row_ok depth)); [discriminate|].
  rewrite (lazy_eval_st_eq _ _ _ _ _ T) in H. cbn [bind] in H. cbv beta iota in H.
  apply SearchProofs.bind_ok in H. destruct H as (st2 & _ & H).
  pose proof (lazy_eval_range p depth a b Hwf D) as E.
  destruct (lazy_eval p depth a b >=? b) eqn:E1; [inversion H; cbn [iv ir]; clear - E E1; lia|].
  destruct (lazy_eval p depth a b >? a) eqn:E2; cbv beta iota in H;
    apply SearchProofs.bind_ok in H; destruct H as (p2 & _ & H); apply SearchProofs.bind_ok in H; destruct H as (tms & _ & H);
    apply q_loop_lower in H; clear - H E E1 E2; lia.
Qed.

Theorem quiesce_i_upper : forall fuel cand st a b depth r p,
  top st = Ok p -> chess_inv 1 p -> 0 <= depth < bandDepth ->
  quiesce_i order log_interval fuel cand st a b depth = Ok r -> iv r <= Z.max a (- LostScore - depth - 1).
Proof.
  intros [|f] cand st a b depth r p T I D H; [discriminate H|].
  pose proof (chess_inv_wf _ _ I) as Hwf.
  rewrite quiesce_i_eq in H. destruct (negb (row_ok depth)); [discriminate|].
  rewrite (lazy_eval_st_eq _ _ _ _ _ T) in H. cbn [bind] in H. cbv beta iota in H.
  apply SearchProofs.bind_ok in H. destruct H as (st2 & CM & H). apply currmove_step_keeps in CM.
  pose proof (keeps_top' _ _ _ (keeps_trans _ _ _ (keeps_set_nodes st (st_nodes st + 1)) CM) T) as T2.
  pose proof (lazy_eval_range p depth a b Hwf ltac:(lia)) as E.
  assert (EU : lazy_eval p depth a b <= - LostScore - depth - 1)
    by (clear - E D; unfold bandDepth, LostScore, ScoreCloseToMate in *; lia).
  destruct (lazy_eval p depth a b >=? b) eqn:E1; [inversion H; cbn [iv ir]; clear - E1 EU; lia|].
  assert (exists alpha1 line1 tms, gen_tactical p = Ok tms /\
        q_loop (fun stp x y => quiesce_i order log_interval f cand stp x y (depth + 1)) b
          (order (st_killers st2) cand depth p tms) alpha1 line1 st2 = Ok r
        /\ alpha1 <= Z.max a (- LostScore - depth - 1)) as (alpha1 & line1 & tms & G & H' & A1).
  { destruct (lazy_eval p depth a b >? a) eqn:E2; cbv beta iota in H; rewrite T2 in H; cbn [bind] in H;
      apply SearchProofs.bind_ok in H; destruct H as (tms & G & H); do 3 eexists; (split; [exact G|]; split; [exact H | clear - EU E2; lia]). }
  clear H.
  eapply q_loop_upper with (okm := fun p' => wf p' = true) (U := - LostScore - depth - 1) in H'; [clear - H' A1; lia | | | exact T2 | ].
  - intros stp x y c Hc. eapply quiesce_i_keeps; exact Hc.
  - intros stp p' x y c T' W' Hc. apply (quiesce_i_lower f cand stp x y (depth + 1) c p' T' W' ltac:(clear - D; lia)) in Hc. clear - Hc. lia.
  - intros m p' In' ML. apply order_incl in In'.
    exact (chess_inv_wf _ _ (chess_inv_tactical_step _ _ _ _ _ I G In' ML)).
Qed.

(* the fact SearchImpProofs.v (Section FirstMove) assumes as [leaf_value_lt_inf], for chess positions *)
Theorem chess_leaf_value_lt_inf : forall cand stp c p',
  top stp = Ok p' -> wf_legal p' = true -> ply p' + 2 < 32767 ->
  alpha_beta_i order log_interval 0 cand stp (- InfinityScore) (- - InfinityScore) 1 = Ok c -> iv c < InfinityScore.
Proof.
  intros cand stp c p' T Hl Hp H.
  rewrite alpha_beta_i_eq0 in H. destruct (negb (row_ok 1)); [discriminate|].
  apply (quiesce_i_upper _ _ _ _ _ _ _ p' T) in H; [ | split; [exact Hl | lia] | unfold bandDepth; lia].
  unfold InfinityScore, LostScore in *. lia.
Qed.

(* the same, seen from the root: stp is the state after pushing a legal root move *)
Theorem chess_leaf_value_lt_inf_root : forall cand st stp c p ms m,
  top st = Ok p -> wf_legal p = true -> ply p + 3 < 32767 -> gen_legal p = Ok ms -> In m ms ->
  push st (rm m) = Ok stp ->
  alpha_beta_i order log_interval 0 cand stp (- InfinityScore) (- - InfinityScore) 1 = Ok c -> iv c < InfinityScore.
Proof.
  intros cand st stp c p ms m T Hl Hp G I P H.
  destruct (push_top _ _ _ _ P T) as (p' & ML & T' & _).
  assert (I0 : chess_inv 2 p) by (split; [exact Hl | lia]).
  destruct (chess_inv_legal_step _ _ _ _ _ I0 G I ML) as [Hl' Hp'].
  eapply chess_leaf_value_lt_inf; [exact T' | exact Hl' | lia | exact H].
Qed.
End QBounds.

(* ================= the root value theorems with their numeric premises discharged for chess ================= *)
Theorem chess_root_search_value : forall order, (forall p l, Permutation (order p l) l) ->
  forall d p r one v, wf_legal p = true -> ply p + Z.of_nat d + Z.of_nat qfuel + 3 < 32767 -> (d <= 1000)%nat ->
  root_search order (S d) p = Ok (r, one) -> minimax (S d) p 0 = Ok v -> ssens r = false -> sv r = v.
Proof.
  intros order OP d p r one v Hl Hp Hd H M Sn.
  eapply (root_search_value order OP d p r one v H M Sn).
  - apply chess_mate_in_one_premise; [exact Hl | lia | unfold bandDepth, qfuel; lia].
  - eapply (chess_root_value_gt_minus_inf (S d) p v Hl); [lia | unfold bandDepth, qfuel; lia | exact M].
Qed.

Theorem chess_root_search_i_value : forall order,
  (forall k c d p l, Permutation (order k c d p l) l) ->
  forall log_interval d cand st r one p v,
  wf_legal p = true -> ply p + Z.of_nat d + Z.of_nat qfuel + 3 < 32767 -> (d <= 1000)%nat ->
  quiet st -> top st = Ok p ->
  root_search_i order log_interval (S d) cand st = Ok (r, one) -> minimax (S d) p 0 = Ok v ->
  tree_ok (S d) p 0 -> iv r = v.
Proof.
  intros order OP log_interval d cand st r one p v Hl Hp Hd Q T H M OKT.
  eapply (root_search_i_value order OP log_interval d cand st r one p v Q T H M OKT).
  - apply chess_mate_in_one_premise; [exact Hl | lia | unfold bandDepth, qfuel; lia].
  - eapply (chess_root_value_gt_minus_inf (S d) p v Hl); [lia | unfold bandDepth, qfuel; lia | exact M].
Qed.

(* the depth-1 iteration of a chess position with a legal move always produces a non-empty line:
   SearchImpProofs.root_search_i_1_line with its hypothesis [leaf_value_lt_inf] discharged *)
Theorem chess_root_search_i_1_line : forall order,
  (forall k c d p l, Permutation (order k c d p l) l) ->
  forall log_interval cand st r one p ms,
  wf_legal p = true -> ply p + 3 < 32767 ->
  st_intr st = false -> top st = Ok p -> gen_legal p = Ok ms -> ms <> [] ->
  root_search_i order log_interval 1 cand st = Ok (r, one) -> exists m t, iline r = Some (m :: t).
Proof.
  intros order order_perm log_interval cand st r one p ms Hl Hp I T G N H.
  assert (order_incl : forall k c d p l m, In m (order k c d p l) -> In m l)
    by (intros k c d q l m In'; eapply Permutation_in; [apply order_perm | exact In']).
  apply SearchImpProofs.root_search_i_inv in H as (p0 & ms0 & T0 & G0 & _ & H).
  assert (p0 = p) by (eapply SearchImpProofs.top_inj; eauto). subst p0.
  assert (ms0 = ms) by (eapply SearchImpProofs.gen_legal_inj; eauto). subst ms0.
  destruct H as [(E & _) | (_ & H)]; [congruence|].
  pose proof (order_perm (st_killers st) cand 0 p ms) as PM.
  remember (order (st_killers st) cand 0 p ms) as sorted eqn:ES. clear ES.
  assert (EM : exists m l, sorted = m :: l).
  { destruct sorted as [|m l]; [apply Permutation_nil in PM; congruence | eauto]. }
  destruct EM as (m & l & EM). rewrite EM in H at 2.
  apply SearchImpProofs.root_loop_i_cons in H. cbv zeta in H.
  destruct H as [(I' & _) | (_ & stp & c & alpha' & line' & st1 & st'' & P & C & A & _ & H)]; [congruence|].
  cbn [pred] in C.
  assert (IM : In m ms) by (eapply Permutation_in; [exact PM | rewrite EM; left; reflexivity]).
  assert (LT : iv c < InfinityScore).
  { eapply (chess_leaf_value_lt_inf_root order order_incl log_interval cand (set_first st 0 sorted) stp c p ms m);
      [exact T | exact Hl | exact Hp | exact G | exact IM | exact P | exact C]. }
  assert (L' : exists m t, line' = Some (m :: t)).
  { destruct A as [(A & _) | (_ & cl & st2 & _ & _ & -> & _)]; [lia | eauto]. }
  destruct H as [-> | H]; [exact L'|]. eapply SearchImpProofs.root_loop_i_line; eauto.
Qed.

Print Assumptions mu_bound.
Print Assumptions mu_make_le.
Print Assumptions mu_make_tactical.
Print Assumptions mu_dec_chess.
Print Assumptions mu_legal_chess.
Print Assumptions chess_inv_legal_step.
Print Assumptions chess_inv_tactical_step.
Print Assumptions iterate_i_capacity_inv.
Print Assumptions chess_iterate_i_capacity.
Print Assumptions chess_root_search_i_capacity.
Print Assumptions lazy_eval_range.
Print Assumptions minimax_range.
Print Assumptions chess_mate_in_one_premise.
Print Assumptions chess_root_value_gt_minus_inf.
Print Assumptions quiesce_i_lower.
Print Assumptions quiesce_i_upper.
Print Assumptions chess_leaf_value_lt_inf.
Print Assumptions chess_leaf_value_lt_inf_root.
Print Assumptions chess_root_search_value.
Print Assumptions chess_root_search_i_value.
Print Assumptions chess_root_search_i_1_line.
