(* Evaluation and score formatting.
   PART 1: mate-distance arithmetic of formatScore / pliesToMate.
   PART 2: terminal nodes are scored as mate exactly when the mover is in check; in_check against the rules.
   PART 3: every non-mate evaluation lies strictly inside (-ScoreCloseToMate, ScoreCloseToMate), so it is printed
           as 'cp'.  The king-table interpolation (IEEE binary64, SpecFloat) is bounded by a finite sweep run by
           the kernel.  No axioms, every lemma proved. *)
From Coq Require Import ZArith List Bool Lia ZifyBool.
Require Import Base Generated Position Attack Make Gen Count Eval Uci Search WF.
Require Spec Abs.
Require Import ListProofs AttackProofs.
Import ListNotations.
Open Scope Z_scope.

(* ================= PART 1: score formatting ================= *)

(* a score "mover mates in n plies" (n >= 1) is -LostScore - n; "mover is mated in n plies" (n >= 0) is LostScore + n *)
Theorem format_mate_win : forall n, 1 <= n <= 1000 -> format_score (- LostScore - n) = ShMate ((n + 1) / 2).
Proof.
  intros n H. unfold format_score, close_to_mate, full_moves_to_mate, LostScore, ScoreCloseToMate.
  destruct (Z.abs (- -100000 - n) >? 20800) eqn:E; [|lia].
  f_equal. destruct (- -100000 - n <? 0) eqn:E2; [lia|].
  replace (1 * (- -100000 - Z.abs (- -100000 - n) + 1)) with (n + 1) by lia.
  rewrite Z.quot_div_nonneg by lia. reflexivity.
Qed.

Theorem format_mate_loss : forall n, 0 <= n <= 1000 -> format_score (LostScore + n) = ShMate (- ((n + 1) / 2)).
Proof.
  intros n H. unfold format_score, close_to_mate, full_moves_to_mate, LostScore, ScoreCloseToMate.
  destruct (Z.abs (-100000 + n) >? 20800) eqn:E; [|lia].
  f_equal. destruct (-100000 + n <? 0) eqn:E2; [|lia].
  replace (-1 * (- -100000 - Z.abs (-100000 + n) + 1)) with (- (n + 1)) by lia.
  rewrite Z.quot_opp_l by lia. rewrite Z.quot_div_nonneg by lia. reflexivity.
Qed.

Theorem format_cp : forall s, Z.abs s <= ScoreCloseToMate -> format_score s = ShCp s.
Proof.
  intros s H. unfold format_score, close_to_mate in *.
  destruct (Z.abs s >? ScoreCloseToMate) eqn:E; [lia|reflexivity].
Qed.

Theorem plies_to_mate_win : forall n, 0 <= n <= 1000 ->
  Search.plies_to_mate (- LostScore - n) = n /\ Search.plies_to_mate (LostScore + n) = n.
Proof. intros n H. unfold Search.plies_to_mate, LostScore. lia. Qed.

(* the printed number is the number of the mover's own moves: odd plies for a win, even plies for a loss *)
Corollary format_mate_examples :
  format_score (- LostScore - 1) = ShMate 1 /\ format_score (- LostScore - 3) = ShMate 2 /\
  format_score LostScore = ShMate 0 /\ format_score (LostScore + 2) = ShMate (-1).
Proof. repeat split. Qed.

(* ================= PART 2: terminal classification ================= *)

Theorem terminal_score_mate_iff : forall p depth, 0 <= depth <= 1000 ->
  (terminal_score p depth = LostScore + depth <-> in_check p = true).
Proof.
  intros p depth H. unfold terminal_score. destruct (in_check p).
  - split; reflexivity.
  - unfold LostScore, DrawScore. split; [lia|discriminate].
Qed.

Theorem terminal_score_draw : forall p depth, in_check p = false -> terminal_score p depth = DrawScore.
Proof. intros p depth H. unfold terminal_score. rewrite H. reflexivity. Qed.

Lemma find_unique {A} (f : A -> bool) (l : list A) (t : A) :
  (forall x, In x l -> f x = true -> x = t) -> In t l -> f t = true -> find f l = Some t.
Proof.
  induction l as [|a l IH]; intros U Hin Ht; [contradiction|]. cbn [find].
  destruct (f a) eqn:E.
  - f_equal. apply U; [left; reflexivity|exact E].
  - apply IH.
    + intros x Hx. apply U. right. exact Hx.
    + destruct Hin as [->|Hin]; [congruence|exact Hin].
    + exact Ht.
Qed.

(* the parts of wf used here *)
Lemma wf_eval_parts : forall p, wf p = true ->
  lists_ok (board p) White (wpieces p) (wpawns p) (wking p) = true /\
  lists_ok (board p) Black (bpieces p) (bpawns p) (bking p) = true /\
  (length (wpawns p) <= 8)%nat /\ (length (bpawns p) <= 8)%nat /\
  (length (wpieces p) + length (wpawns p) <= 15)%nat /\ (length (bpieces p) + length (bpawns p) <= 15)%nat.
Proof.
  intros p H. unfold wf in H. cbv zeta in H.
  repeat (apply andb_prop in H as [H ?]).
  unfold pawnCap, pieceCap in *.
  repeat split; try assumption; apply Nat.leb_le; assumption.
Qed.

Lemma king_sq_abs : forall b c pieces pawns king, lists_ok b c pieces pawns king = true ->
  Spec.king_sq (Abs.abs_board b) c = Some (Abs.coords king).
Proof.
  intros b c pieces pawns king HL. destruct (lo_king _ _ _ _ _ HL) as [Hv Hg].
  unfold Spec.king_sq. apply find_unique.
  - intros x Hx Hh. destruct (all_sq_valid x Hx) as [Hxv Hxc].
    unfold Spec.has in Hh. rewrite <- Hxc in Hh. rewrite (abs_at b _ Hxv) in Hh.
    destruct (get b (Abs.sq88 x)) as [|c' k] eqn:G; cbn [Abs.abs_cell] in Hh; [discriminate Hh|].
    apply andb_prop in Hh as [Hc Hk]. apply color_eqb_eq in Hc. subst c'.
    destruct k; try discriminate Hk.
    pose proof (lo_cell _ _ _ _ _ _ _ HL Hxv G) as E. cbn beta iota in E. rewrite <- E. symmetry. exact Hxc.
  - apply coords_in_all. exact Hv.
  - unfold Spec.has. rewrite (abs_at b king Hv), Hg. cbn [Abs.abs_cell]. rewrite color_eqb_refl. reflexivity.
Qed.

Theorem in_check_is_spec : forall p, wf p = true -> in_check p = Spec.in_check (Spec.brd (Abs.abs p)) (cur_color p).
Proof.
  intros p H. destruct (wf_eval_parts p H) as [HW [HB _]].
  unfold Spec.in_check, Abs.abs. cbn [Spec.brd]. unfold in_check.
  assert (HC : lists_ok (board p) (cur_color p) (cur_pieces p) (cur_pawns p) (cur_king p) = true)
    by (unfold cur_color, cur_pieces, cur_pawns, cur_king; destruct (wturn p); assumption).
  assert (HE : lists_ok (board p) (opp (cur_color p)) (en_pieces p) (en_pawns p) (en_king p) = true)
    by (unfold cur_color, en_pieces, en_pawns, en_king; destruct (wturn p); assumption).
  rewrite (king_sq_abs _ _ _ _ _ HC).
  apply is_under_check_spec; [exact HE|]. apply (lo_king _ _ _ _ _ HC).
Qed.

(* ================= PART 3: the evaluation band ================= *)

(* ---------- sums ---------- *)

Lemma zsum_map_bounds : forall (f : Z -> Z) lo hi l, (forall x, In x l -> lo <= f x <= hi) ->
  lo * Z.of_nat (length l) <= zsum (map f l) <= hi * Z.of_nat (length l).
Proof.
  intros f lo hi l. induction l as [|a l IH]; intros H; cbn [map length].
  - rewrite zsum_nil. lia.
  - rewrite zsum_cons, Nat2Z.inj_succ.
    pose proof (H a (or_introl eq_refl)). specialize (IH (fun x Hx => H x (or_intror Hx))). lia.
Qed.

Lemma zsum_map_le : forall (f g : Z -> Z) l, (forall x, In x l -> f x <= g x) -> zsum (map f l) <= zsum (map g l).
Proof.
  intros f g l. induction l as [|a l IH]; intros H; cbn [map].
  - lia.
  - rewrite !zsum_cons. pose proof (H a (or_introl eq_refl)). specialize (IH (fun x Hx => H x (or_intror Hx))). lia.
Qed.

Lemma b2z_bound : forall b, 0 <= b2z b <= 1.
Proof. intros []; cbn [b2z]; lia. Qed.

(* ---------- (a) mobility ---------- *)

(* number of board squares on the ray from s in direction d *)
Fixpoint ray_len (fuel : nat) (s d : Z) : Z :=
  match fuel with O => 0 | S k => let t := byte (s + d) in if onb t then 1 + ray_len k t d else 0 end.

Lemma count_slide_ray : forall fuel p c f s d, 0 <= count_slide fuel p c f s d <= ray_len fuel s d.
Proof.
  induction fuel as [|k IH]; intros p c f s d; cbn [count_slide ray_len]; [lia|]. cbv zeta.
  destruct (onb (byte (s + d))); [|lia].
  specialize (IH p c f (byte (s + d)) d).
  pose proof (b2z_bound (is_legal p (new_move f (byte (s + d))))).
  destruct (get (board p) (byte (s + d))) as [|c' k']; [lia|]. destruct (color_eqb c c'); lia.
Qed.

Lemma ray_sweep :
  forallb (fun s => (zsum (map (ray_len 7 s) bishop_dirs) <=? 13) && (zsum (map (ray_len 7 s) rook_dirs) <=? 14)
                    && (zsum (map (ray_len 7 s) queen_dirs) <=? 27)) valid_squares = true.
Proof. vm_compute. reflexivity. Qed.

Lemma slider_bound : forall p c from dirs n, 
  zsum (map (ray_len 7 from) dirs) <= n -> 0 <= zsum (map (count_slide 7 p c from from) dirs) <= n.
Proof.
  intros p c from dirs n H. split.
  - pose proof (zsum_map_bounds (count_slide 7 p c from from) 0 7 dirs) as B.
    assert (forall x, In x dirs -> 0 <= count_slide 7 p c from from x <= 7).
    { intros x _. pose proof (count_slide_ray 7 p c from from x). 
      assert (forall fuel s d, ray_len fuel s d <= Z.of_nat fuel).
      { induction fuel as [|k IH]; intros s d; cbn [ray_len]; [lia|]. cbv zeta. rewrite Nat2Z.inj_succ.
        destruct (onb (byte (s + d))); [specialize (IH (byte (s + d)) d)|]; lia. }
      specialize (H1 7%nat from x). lia. }
    specialize (B H0). lia.
  - eapply Z.le_trans; [|exact H]. apply zsum_map_le. intros x _. apply count_slide_ray.
Qed.

Lemma count_pawn_bound : forall p f t r, 0 <= count_pawn p f t r <= 4.
Proof. intros p f t r. unfold count_pawn. destruct (is_legal p (new_move f t)); [destruct (rankof t =? r)|]; lia. Qed.

Lemma count_moves_bound_gen : forall p,
  (length (cur_pieces p) + length (cur_pawns p) <= 15)%nat -> (length (cur_pawns p) <= 8)%nat ->
  (forall s, In s (cur_pieces p) -> validb s = true) ->
  0 <= count_moves p <= 420.
Proof.
  intros p HL HP HV. unfold count_moves. cbv zeta.
  match goal with |- context [zsum (map ?f (cur_pawns p))] =>
    pose proof (zsum_map_bounds f 0 13 (cur_pawns p)) as B1 end.
  match goal with |- context [zsum (map ?f (cur_pieces p))] =>
    pose proof (zsum_map_bounds f 0 27 (cur_pieces p)) as B2 end.
  match goal with |- context [zsum (map ?f king_dirs)] =>
    pose proof (zsum_map_bounds f 0 1 king_dirs) as B3 end.
  pose proof (b2z_bound (can_castle_q p)) as B4. pose proof (b2z_bound (can_castle_k p)) as B5.
  change (Z.of_nat (length king_dirs)) with 8 in B3.
  match type of B1 with ?A -> _ => assert (P1 : A) end.
  { intros from _. cbv beta.
    pose proof (count_pawn_bound p from (byte (from + adv_of p - 1)) (promo_rank_of p)).
    pose proof (count_pawn_bound p from (byte (from + adv_of p + 1)) (promo_rank_of p)).
    pose proof (count_pawn_bound p from (byte (from + adv_of p)) (promo_rank_of p)).
    set (x1 := count_pawn p from (byte (from + adv_of p - 1)) (promo_rank_of p)) in *.
    set (x2 := count_pawn p from (byte (from + adv_of p + 1)) (promo_rank_of p)) in *.
    set (x3 := count_pawn p from (byte (from + adv_of p)) (promo_rank_of p)) in *.
    clearbody x1 x2 x3.
    match goal with |- context [b2z ?x] => pose proof (b2z_bound x); set (x4 := b2z x) in *; clearbody x4 end.
    repeat match goal with |- context [match ?c with _ => _ end] => destruct c end; lia. }
  match type of B2 with ?A -> _ => assert (P2 : A) end.
  { intros from Hin. cbv beta. pose proof (HV from Hin) as Hv. apply valid_in in Hv.
    pose proof ray_sweep as S. rewrite forallb_forall in S. specialize (S from Hv). cbv beta in S.
    apply andb_prop in S as [S S3]. apply andb_prop in S as [S1 S2].
    destruct (get (board p) from) as [|c' k]; [lia|]. destruct k; try lia.
    - match goal with |- context [zsum (map ?f knight_dirs)] =>
        pose proof (zsum_map_bounds f 0 1 knight_dirs) as K end.
      change (Z.of_nat (length knight_dirs)) with 8 in K.
      match type of K with ?A -> _ => assert (PK : A) end.
      { intros d _. cbv beta. 
        match goal with |- context [b2z ?x] => pose proof (b2z_bound x); set (x4 := b2z x) in *; clearbody x4 end.
        destruct (_ && _); lia. }
      specialize (K PK). lia.
    - pose proof (slider_bound p (cur_color p) from bishop_dirs 13). lia.
    - pose proof (slider_bound p (cur_color p) from rook_dirs 14). lia.
    - pose proof (slider_bound p (cur_color p) from queen_dirs 27). lia. }
  match type of B3 with ?A -> _ => assert (P3 : A) end.
  { intros d _. cbv beta.
    match goal with |- context [b2z ?x] => pose proof (b2z_bound x); set (x4 := b2z x) in *; clearbody x4 end.
    destruct (_ && _); lia. }
  specialize (B1 P1). specialize (B2 P2). specialize (B3 P3). lia.
Qed.

Theorem count_moves_bound : forall p, wf p = true -> 0 <= count_moves p <= 420.
Proof.
  intros p H. destruct (wf_eval_parts p H) as [HW [HB [L1 [L2 [L3 L4]]]]].
  destruct (lists_ok_parts _ _ _ _ _ HW) as [_ [_ [VW _]]]. destruct (lists_ok_parts _ _ _ _ _ HB) as [_ [_ [VB _]]].
  apply count_moves_bound_gen; unfold cur_pieces, cur_pawns; destruct (wturn p); assumption.
Qed.

Theorem count_moves_flip_bound : forall p, wf p = true -> 0 <= count_moves (flip_turn p) <= 420.
Proof.
  intros p H. destruct (wf_eval_parts p H) as [HW [HB [L1 [L2 [L3 L4]]]]].
  destruct (lists_ok_parts _ _ _ _ _ HW) as [_ [_ [VW _]]]. destruct (lists_ok_parts _ _ _ _ _ HB) as [_ [_ [VB _]]].
  apply count_moves_bound_gen; unfold cur_pieces, cur_pawns, flip_turn; cbn [wturn wpieces bpieces wpawns bpawns];
    destruct (wturn p); cbn [negb]; assumption.
Qed.

(* ---------- (b) material and piece-square tables ---------- *)

Definition pst_ok (t : list Z) : bool := forallb (fun x => (-50 <=? x) && (x <=? 50)) t.

Lemma tables_ok :
  pst_ok pst_pawn_w = true /\ pst_ok pst_pawn_b = true /\ pst_ok pst_knight_w = true /\ pst_ok pst_knight_b = true /\
  pst_ok pst_bishop_w = true /\ pst_ok pst_bishop_b = true /\ pst_ok pst_rook_w = true /\ pst_ok pst_rook_b = true /\
  pst_ok pst_queen_w = true /\ pst_ok pst_queen_b = true /\ pst_ok pst_kingmid_w = true /\ pst_ok pst_kingmid_b = true /\
  pst_ok pst_kingend_w = true /\ pst_ok pst_kingend_b = true.
Proof. repeat split; vm_compute; reflexivity. Qed.

Lemma tabz_bound : forall t s, pst_ok t = true -> -50 <= tabz t s <= 50.
Proof.
  intros t s H. unfold tabz. destruct (s <? 0); [lia|].
  destruct (nth_in_or_default (Z.to_nat s) t 0) as [Hin|E]; [|rewrite E; lia].
  unfold pst_ok in H. rewrite forallb_forall in H. specialize (H _ Hin). lia.
Qed.

Lemma piece_term_bound : forall tn tb tr tq b s,
  pst_ok tn = true -> pst_ok tb = true -> pst_ok tr = true -> pst_ok tq = true ->
  0 <= piece_term tn tb tr tq b s <= 950.
Proof.
  intros tn tb tr tq b s Hn Hb Hr Hq. unfold piece_term, MatKnight, MatBishop, MatRook, MatQueen.
  pose proof (tabz_bound tn s Hn). pose proof (tabz_bound tb s Hb).
  pose proof (tabz_bound tr s Hr). pose proof (tabz_bound tq s Hq).
  destruct (get b s) as [|c k]; [lia|]. destruct k; lia.
Qed.

Lemma side_score_bound : forall b pieces pawns king tn tb tr tq tp tkm tke m,
  pst_ok tn = true -> pst_ok tb = true -> pst_ok tr = true -> pst_ok tq = true -> pst_ok tp = true ->
  Z.abs (taper m (tabz tkm king) (tabz tke king)) <= 600 ->
  -600 <= side_score b pieces pawns king tn tb tr tq tp tkm tke m
       <= 950 * Z.of_nat (length pieces + length pawns) + 600.
Proof.
  intros b pieces pawns king tn tb tr tq tp tkm tke m Hn Hb Hr Hq Hp HT. unfold side_score.
  pose proof (zsum_map_bounds (piece_term tn tb tr tq b) 0 950 pieces
                (fun x _ => piece_term_bound tn tb tr tq b x Hn Hb Hr Hq)) as B1.
  pose proof (zsum_map_bounds (fun s => MatPawn + tabz tp s) 0 950 pawns) as B2.
  assert (P2 : forall x, In x pawns -> 0 <= MatPawn + tabz tp x <= 950).
  { intros x _. pose proof (tabz_bound tp x Hp). unfold MatPawn. lia. }
  specialize (B2 P2). rewrite Nat2Z.inj_add. lia.
Qed.

(* ---------- (c) the king term ---------- *)

Lemma nonpawn_shape : forall b l, exists k, nonpawn b l = 10 * k /\ 0 <= k <= 90 * Z.of_nat (length l).
Proof.
  intros b l. unfold nonpawn. induction l as [|a l [k [E Hk]]]; cbn [map length].
  - exists 0. rewrite zsum_nil. lia.
  - rewrite zsum_cons, E, Nat2Z.inj_succ.
    destruct (get b a) as [|c kd].
    + exists k. lia.
    + destruct kd; unfold mat_of, MatKnight, MatBishop, MatRook, MatQueen;
        [exists k|exists (32 + k)|exists (33 + k)|exists (50 + k)|exists (90 + k)|exists k]; lia.
Qed.

Definition pair_eqb (x y : Z * Z) : bool := (fst x =? fst y) && (snd x =? snd y).
Fixpoint dedup (l : list (Z * Z)) : list (Z * Z) :=
  match l with [] => [] | x :: r => let d := dedup r in if existsb (pair_eqb x) d then d else x :: d end.
(* the (middle game, end game) king-table values that occur together on some square *)
Definition king_pairs : list (Z * Z) :=
  Eval vm_compute in dedup (combine pst_kingmid_w pst_kingend_w ++ combine pst_kingmid_b pst_kingend_b).

Lemma king_pairs_cover :
  forallb (fun s => existsb (pair_eqb (tabz pst_kingmid_w s, tabz pst_kingend_w s)) king_pairs
                    && existsb (pair_eqb (tabz pst_kingmid_b s, tabz pst_kingend_b s)) king_pairs) squares128 = true.
Proof. vm_compute. reflexivity. Qed.

Lemma existsb_pair_In : forall x l, existsb (pair_eqb x) l = true -> In x l.
Proof.
  intros x l H. apply existsb_exists in H as [y [Hy E]]. unfold pair_eqb in E.
  apply andb_prop in E as [E1 E2]. apply Z.eqb_eq in E1, E2. destruct x, y. cbn [fst snd] in *. subst. exact Hy.
Qed.

Lemma king_pair_in : forall s, validb s = true ->
  In (tabz pst_kingmid_w s, tabz pst_kingend_w s) king_pairs /\ In (tabz pst_kingmid_b s, tabz pst_kingend_b s) king_pairs.
Proof.
  intros s H. apply validb_range in H as [H _]. apply squares128_In in H.
  pose proof king_pairs_cover as C. rewrite forallb_forall in C. specialize (C s H). cbv beta in C.
  apply andb_prop in C as [C1 C2]. split; apply existsb_pair_In; assumption.
Qed.

(* the finite sweep: every material sum 0, 10, ..., 27000 against every pair of king-table values, in binary64 *)
Definition taper_ok (m10 : Z) : bool :=
  forallb (fun ab => Z.abs (taper (10 * m10) (fst ab) (snd ab)) <=? 600) king_pairs.
Lemma taper_sweep : forallb taper_ok (map Z.of_nat (seq 0 2701)) = true.
Proof. vm_cast_no_check (eq_refl true). Qed.

Lemma taper_small : forall k a b, 0 <= k <= 2700 -> In (a, b) king_pairs -> Z.abs (taper (10 * k) a b) <= 600.
Proof.
  intros k a b Hk Hin. pose proof taper_sweep as S. rewrite forallb_forall in S.
  assert (Hm : In k (map Z.of_nat (seq 0 2701))).
  { apply in_map_iff. exists (Z.to_nat k). split; [lia|]. apply in_seq. lia. }
  specialize (S k Hm). unfold taper_ok in S. rewrite forallb_forall in S. specialize (S (a, b) Hin).
  cbn [fst snd] in S. lia.
Qed.

Lemma material_sum_shape : forall p, (length (wpieces p) <= 15)%nat -> (length (bpieces p) <= 15)%nat ->
  exists k, material_sum p = 10 * k /\ 0 <= k <= 2700.
Proof.
  intros p HW HB. unfold material_sum.
  destruct (nonpawn_shape (board p) (wpieces p)) as [k1 [E1 B1]].
  destruct (nonpawn_shape (board p) (bpieces p)) as [k2 [E2 B2]].
  exists (k1 + k2). rewrite E1, E2. lia.
Qed.

(* ---------- (d) assembly ---------- *)

Lemma side_scores_band : forall p, wf p = true ->
  -600 <= white_score p <= 14850 /\ -600 <= black_score p <= 14850.
Proof.
  intros p H. destruct (wf_eval_parts p H) as [HW [HB [L1 [L2 [L3 L4]]]]].
  destruct (material_sum_shape p) as [k [Em Hk]]; [lia|lia|].
  destruct (lo_king _ _ _ _ _ HW) as [VW _]. destruct (lo_king _ _ _ _ _ HB) as [VB _].
  destruct (king_pair_in _ VW) as [PW _]. destruct (king_pair_in _ VB) as [_ PB].
  destruct tables_ok as (Tpw & Tpb & Tnw & Tnb & Tbw & Tbb & Trw & Trb & Tqw & Tqb & _).
  unfold white_score, black_score. rewrite Em. split.
  - pose proof (side_score_bound (board p) (wpieces p) (wpawns p) (wking p) pst_knight_w pst_bishop_w pst_rook_w
                  pst_queen_w pst_pawn_w pst_kingmid_w pst_kingend_w (10 * k) Tnw Tbw Trw Tqw Tpw
                  (taper_small k _ _ Hk PW)) as B. clear - B L3 L4. lia.
  - pose proof (side_score_bound (board p) (bpieces p) (bpawns p) (bking p) pst_knight_b pst_bishop_b pst_rook_b
                  pst_queen_b pst_pawn_b pst_kingmid_b pst_kingend_b (10 * k) Tnb Tbb Trb Tqb Tpb
                  (taper_small k _ _ Hk PB)) as B. clear - B L3 L4. lia.
Qed.

Theorem psq_score_band : forall p, wf p = true -> Z.abs (psq_score p) <= 16000.
Proof.
  intros p H. destruct (side_scores_band p H) as [BW BB]. unfold psq_score. destruct (wturn p); lia.
Qed.

Theorem evaluate_band : forall p depth, wf p = true -> is_checkmate p = false ->
  Z.abs (evaluate p depth) < ScoreCloseToMate.
Proof.
  intros p depth H Hm. unfold evaluate, lazy_eval. rewrite Hm.
  pose proof (psq_score_band p H) as B. pose proof (count_moves_bound p H) as C1.
  pose proof (count_moves_flip_bound p H) as C2. cbv zeta.
  unfold InfinityScore, fullEvalScoreMargin, MobilityScoreFactor, DrawScore, ScoreCloseToMate.
  set (ms := psq_score p) in *. set (c1 := count_moves p) in *. set (c2 := count_moves (flip_turn p)) in *.
  clearbody ms c1 c2.
  match goal with |- context [if ?c then ms else _] => destruct c eqn:E end; [lia|].
  destruct (c1 * 5 =? 0); lia.
Qed.

(* hence: what the engine prints for a non-mate evaluation is a centipawn score *)
Corollary evaluate_printed_cp : forall p depth, wf p = true -> is_checkmate p = false ->
  format_score (evaluate p depth) = ShCp (evaluate p depth).
Proof. intros p depth H Hm. apply format_cp. pose proof (evaluate_band p depth H Hm). lia. Qed.

Print Assumptions format_mate_win.
Print Assumptions format_mate_loss.
Print Assumptions format_cp.
Print Assumptions plies_to_mate_win.
Print Assumptions terminal_score_mate_iff.
Print Assumptions terminal_score_draw.
Print Assumptions in_check_is_spec.
Print Assumptions count_moves_bound_gen.
Print Assumptions count_moves_bound.
Print Assumptions count_moves_flip_bound.
Print Assumptions taper_small.
Print Assumptions psq_score_band.
Print Assumptions evaluate_band.
Print Assumptions evaluate_printed_cp.
