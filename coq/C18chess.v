(* Property C18, chess level: with the engine's constants (depth <= 40, 88 PV rows, 200 stack slots, 64 quiescence plies)
   no search on a well-formed legal position ever exhausts a fixed capacity -- the measure mu (pieces + 2 * pawns <= 46)
   is discharged for the real move generator and make_legal; only "the ordering returns moves of the list" is assumed. *)
From Coq Require Import ZArith List.
Require Import Base Generated Position Make Gen WF Search SearchImp SearchImpValue SearchImpChess2.
Open Scope Z_scope.

Theorem C18_chess_no_capacity_panic : forall order,
  (forall k c d p l m, In m (order k c d p l) -> In m l) ->
  forall log_interval max_depth p st0 w,
  wf_legal p = true -> ply p + 200 < 32767 -> (max_depth <= 40)%nat ->
  top st0 = Ok p -> ply_idx st0 = 0 ->
  iterate_i order log_interval max_depth st0 = Panic w -> ~ cap_panic w.
Proof. exact chess_iterate_i_capacity. Qed.
(* the measure: bounded by 46 on every well-formed position, never increased by a move, decreased by every tactical move *)
Theorem C18_measure_bound : forall p, wf p = true -> (mu p <= 46)%nat.
Proof. exact mu_bound. Qed.
Theorem C18_measure_monotone : forall p m p', make_legal p m = Ok p' -> (mu p' <= mu p)%nat.
Proof. exact mu_legal_any. Qed.
Theorem C18_measure_decreases_on_tactical : forall p tms m p', wf_legal p = true -> ply p + 1 < 32767 ->
  gen_tactical p = Ok tms -> In m tms -> make_legal p (rm m) = Ok p' -> (mu p' < mu p)%nat.
Proof. exact mu_dec_chess. Qed.
Print Assumptions C18_chess_no_capacity_panic.
Print Assumptions C18_measure_bound.
Print Assumptions C18_measure_monotone.
Print Assumptions C18_measure_decreases_on_tactical.
