(* Property C17, capstone: NO premise is left about the search or the perft walkers.  With the engine's search
   (iterative deepening under any ordering that permutes the move list), for every killer table, every oracle stream
   (stop polls, clock readings), every input line whose position move list (if any) is legal for its start position:
   the command interpreter never panics, and the read loop never crashes. *)
From Coq Require Import ZArith List Permutation.
Require Import Str.
Require Import Base Generated Position Make Gen SearchImp Session SessionProofs MakeSpec MakeProofs PerftProofs SearchTotal.

Definition permuting (order : killer_table -> list move -> Z -> pos -> list rmove -> list rmove) : Prop :=
  forall k c d p l, Permutation (order k c d p l) l.

(* the search itself: from the initial search state of a well-formed legal position, every depth 1..40, every log interval in range *)
Theorem C17_search_never_panics : forall order, permuting order -> search_total (engine_search order).
Proof. exact engine_search_total. Qed.
Theorem C17_interpreter_never_panics : forall order, permuting order -> forall s e line, sess_ok s -> line_ok line ->
  exists s' o, handle (engine_search order) s e line = Ok (s', o) /\ sess_ok s'.
Proof. intros order OP s e line. exact (handle_total_legal_moves make_spec (engine_search order) s e line (engine_search_total order OP) perft_total_holds tperft_total_holds). Qed.
Theorem C17_read_loop_never_crashes : forall order, permuting order ->
  forall n s input, sess_ok s -> Forall (fun le => line_ok (fst le)) input -> forall w, main_loop (engine_search order) n s input <> Crashed w.
Proof. intros order OP. exact (main_loop_never_crashes_legal_moves make_spec (engine_search order) (engine_search_total order OP) perft_total_holds tperft_total_holds). Qed.
(* non-vacuity: the identity ordering permutes, the initial session is ok *)
Example C17_premises_satisfiable : permuting plain_order /\ sess_ok sess0.
Proof. split; [intros k c d p l; apply Permutation_refl | exact sess0_ok]. Qed.
Print Assumptions C17_search_never_panics.
Print Assumptions C17_interpreter_never_panics.
Print Assumptions C17_read_loop_never_crashes.
