(* The quiescence generator, the tactical flag, the two fast move counters and perft (model: Gen.gen_tactical,
   Gen.count_tactical, Count.count_moves, Perft.perft) against the rules of chess (Spec).
   Given the statement about MakeMove (make_spec_statement, a Section hypothesis proved elsewhere):
     gen_tactical_exact    the quiescence move list is exactly the legal moves that capture or promote, each once
     tactical_flag_exact   the tactical flag of a generated legal move is Spec.is_tactical
     count_moves_exact     countMoves = number of generated legal moves
     count_tactical_exact  countTacticalMoves = number of generated tactical moves
     perft_exact           perft n = Spec.paths n, for every depth
   Ingredients proved here without make_spec: the tactical generator is the full generator filtered by the flag;
   legality of a pawn move does not depend on the promotion piece (directly on make); a castling move that passes
   castle_ok never leaves the king in check (rules level); the rules are invariant under extensional equality of
   positions; the candidate list of the rules has no duplicates.
   Geometry is settled by kernel computation over the squares.  No axioms, every lemma proved. *)
From Coq Require Import ZArith List Bool Lia ZifyBool Permutation.
Require Import Base Generated Position Attack Make Gen Count Perft WF.
Require Spec.
Require Import Abs MakeSpec ListProofs AttackProofs GenProofs.
Require MirrorProofs.
Import ListNotations.
Open Scope Z_scope.

(* ================= list helpers ================= *)

Lemma filter_flat_map {A B} (f : B -> bool) (g : A -> list B) l :
  filter f (flat_map g l) = flat_map (fun x => filter f (g x)) l.
Proof. induction l as [|x l IH]; cbn [flat_map]; [reflexivity|]. rewrite filter_app, IH. reflexivity. Qed.

Lemma filter_comm {A} (f g : A -> bool) l : filter f (filter g l) = filter g (filter f l).
Proof.
  induction l as [|x l IH]; cbn [filter]; [reflexivity|].
  destruct (g x) eqn:G, (f x) eqn:F; cbn [filter]; rewrite ?G, ?F, IH; reflexivity.
Qed.

(* ================= the tactical generator is the full generator filtered by the flag ================= *)

Lemma slide_cap_filter : forall fuel b c f s d, slide_cap fuel b c f s d = filter tactical (slide fuel b c f s d).
Proof.
  induction fuel as [|k IH]; intros b c f s d; cbn [slide slide_cap]; [reflexivity|]. cbv zeta.
  destruct (onb (byte (s + d))); [|reflexivity].
  destruct (get b (byte (s + d))) as [|c' k'] eqn:G.
  - cbn [filter tactical move_or_capture]. rewrite G. cbn [is_empty negb]. apply IH.
  - destruct (color_eqb c c'); [reflexivity|]. cbn [filter tactical move_or_capture]. rewrite G. reflexivity.
Qed.

Lemma filter_tactical_capture : forall f t R, filter tactical (pawn_capture f t R) = pawn_capture f t R.
Proof. intros f t R. unfold pawn_capture. destruct (rankof t =? R); reflexivity. Qed.

Lemma is_col_opp : forall c x, is_col (opp c) x = negb (is_col c x) && negb (is_empty x).
Proof. intros c [|c' k]; [reflexivity|]. destruct c, c'; reflexivity. Qed.

Theorem gen_pseudo_tactical_filter : forall p, gen_pseudo_tactical p = filter tactical (gen_pseudo p).
Proof.
  intros p. unfold gen_pseudo_tactical, gen_pseudo. cbv zeta.
  rewrite !filter_app, !filter_flat_map.
  assert (Q : filter tactical (if can_castle_q p then [{| rm := new_move (cur_king p) (cur_king p - 2); tactical := false |}] else []) = [])
    by (destruct (can_castle_q p); reflexivity).
  assert (K : filter tactical (if can_castle_k p then [{| rm := new_move (cur_king p) (cur_king p + 2); tactical := false |}] else []) = [])
    by (destruct (can_castle_k p); reflexivity).
  rewrite Q, K, !app_nil_r. f_equal; [|f_equal].
  - apply flat_map_ext. intros from. rewrite !filter_app. f_equal; [|f_equal].
    + destruct (_ && _); [symmetry; apply filter_tactical_capture|].
      destruct (_ =? _); [symmetry; apply filter_tactical_capture|reflexivity].
    + destruct (is_col _ _); [symmetry; apply filter_tactical_capture|].
      destruct (_ =? _); [symmetry; apply filter_tactical_capture|reflexivity].
    + destruct (get (board p) (byte (from + adv_of p))); [|reflexivity].
      rewrite filter_app. unfold pawn_push.
      assert (D : filter tactical
         (if rankof from =? start_rank_of p
          then match get (board p) (byte (byte (from + adv_of p) + adv_of p)) with
               | Empty => [{| rm := {| mfrom := from; mto := byte (byte (from + adv_of p) + adv_of p); mpromo := None; mep := byte (from + adv_of p) |}; tactical := false |}]
               | Pc _ _ => [] end
          else []) = []).
      { destruct (rankof from =? start_rank_of p); [|reflexivity]. destruct (get _ _); reflexivity. }
      rewrite D, app_nil_r. clear D. destruct (rankof (byte (from + adv_of p)) =? promo_rank_of p); reflexivity.
  - apply flat_map_ext. intros from.
    destruct (get (board p) from) as [|c0 k]; [reflexivity|]. destruct k; try reflexivity.
    + rewrite filter_flat_map. apply flat_map_ext. intros d.
      rewrite is_col_opp. destruct (onb _); [|reflexivity]. cbn [andb].
      destruct (negb (is_col (cur_color p) (get (board p) (byte (from + d))))); [|reflexivity]. cbn [andb].
      cbn [filter tactical move_or_capture]. destruct (negb (is_empty _)); reflexivity.
    + rewrite filter_flat_map. apply flat_map_ext. intros d. apply slide_cap_filter.
    + rewrite filter_flat_map. apply flat_map_ext. intros d. apply slide_cap_filter.
    + rewrite filter_flat_map. apply flat_map_ext. intros d. apply slide_cap_filter.
  - apply flat_map_ext. intros d.
    rewrite is_col_opp. destruct (onb _); [|reflexivity]. cbn [andb].
    destruct (negb (is_col (cur_color p) (get (board p) (byte (cur_king p + d))))); [|reflexivity]. cbn [andb].
    destruct (negb (is_empty (get (board p) (byte (cur_king p + d))))) eqn:E; cbn [andb].
    + destruct (safe_sq p _); [|reflexivity]. cbn [filter tactical move_or_capture]. rewrite E. reflexivity.
    + destruct (safe_sq p _); [|reflexivity]. cbn [filter tactical move_or_capture]. rewrite E. reflexivity.
Qed.

(* ================= the tactical flag of a generated move ================= *)

Definition tacm (p : pos) (m : move) : bool :=
  is_col (opp (cur_color p)) (get (board p) (mto m))
  || (is_pc (cur_color p) Pawn (get (board p) (mfrom m)) && negb (fst (coords (mto m)) =? fst (coords (mfrom m)))
      && is_empty (get (board p) (mto m)))
  || match mpromo m with Some _ => true | None => false end.

Lemma tacm_spec : forall p m, validb (mfrom m) = true -> validb (mto m) = true ->
  Spec.is_tactical (abs p) (absm m) = tacm p m.
Proof.
  intros p m Hf Ht. unfold Spec.is_tactical, Spec.is_capture, tacm, absm. cbn [Spec.mfrom Spec.mto Spec.promo].
  rewrite abs_brd, abs_turn, (abs_owned _ _ _ Ht), (abs_has _ _ _ _ Hf), (abs_empty _ _ Ht). reflexivity.
Qed.

Lemma in_if2 {A} (a b : bool) (X : list A) r : In r (if a then X else if b then X else []) -> (a || b) = true /\ In r X.
Proof. destruct a, b; cbn [orb In]; intuition congruence. Qed.

Lemma in_pawn_capture_r : forall f t R r, In r (pawn_capture f t R) -> tactical r = true /\ mfrom (rm r) = f /\ mto (rm r) = t.
Proof.
  intros f t R r. unfold pawn_capture, promo4. destruct (rankof t =? R); cbn [map In].
  - intros [H|[H|[H|[H|[]]]]]; subst r; cbn; auto.
  - intros [H|[]]; subst r; cbn; auto.
Qed.
Lemma in_pawn_push_r : forall f t R r, In r (pawn_push f t R) ->
  tactical r = match mpromo (rm r) with Some _ => true | None => false end /\ mfrom (rm r) = f /\ mto (rm r) = t.
Proof.
  intros f t R r. unfold pawn_push, promo4. destruct (rankof t =? R); cbn [map In].
  - intros [H|[H|[H|[H|[]]]]]; subst r; cbn; auto.
  - intros [H|[]]; subst r; cbn; auto.
Qed.

Section PawnFlag.
Variable p : pos.
Hypothesis Hwf : wf p = true.
Variable from : Z.
Hypothesis Hin : In from (cur_pawns p).

Lemma capture_tac : forall t m, validb t = true -> (t = ptq p from \/ t = ptk p from) -> capt_ok p t = true ->
  mfrom m = from -> mto m = t -> tacm p m = true.
Proof.
  intros t m Vt Ht C Ef Et.
  destruct (lo_pawn _ _ _ _ _ _ (wf_lists_cur p Hwf) Hin) as [Hvf Hg].
  pose proof (wf_pawn_mid p from Hwf Hin) as Hm.
  destruct (pawn_facts2 (wturn p) from t Hvf Vt Hm) as [G1 [G2 _]]. unfold cdf in *.
  unfold tacm. rewrite Ef, Et, Hg. unfold capt_ok in C. apply orb_prop in C as [C|C]; [rewrite C; reflexivity|].
  apply andb_prop in C as [C _]. rewrite C. cbn [is_pc]. rewrite color_eqb_refl. cbn [kind_eqb andb].
  assert (D : negb (fst (coords t) =? fst (coords from)) = true).
  { destruct Ht as [Ht|Ht]; unfold ptq, ptk in Ht.
    - rewrite <- Ht, Z.eqb_refl in G1. lia.
    - rewrite <- Ht, Z.eqb_refl in G2. lia. }
  rewrite D. cbn [andb]. rewrite orb_true_r. reflexivity.
Qed.

Lemma push_tac : forall t m, validb t = true ->
  (t = pt1 p from \/ ((rankof from =? startw (wturn p)) = true /\ t = pt2 p from)) -> is_empty (get (board p) t) = true ->
  mfrom m = from -> mto m = t -> tacm p m = match mpromo m with Some _ => true | None => false end.
Proof.
  intros t m Vt Ht C Ef Et.
  destruct (lo_pawn _ _ _ _ _ _ (wf_lists_cur p Hwf) Hin) as [Hvf Hg].
  pose proof (wf_pawn_mid p from Hwf Hin) as Hm.
  destruct (pawn_facts2 (wturn p) from t Hvf Vt Hm) as [_ [_ [G3 [G4 _]]]]. unfold cdf in *.
  unfold tacm. rewrite Ef, Et.
  assert (E : get (board p) t = Empty) by (destruct (get (board p) t); [reflexivity|discriminate C]).
  rewrite E. cbn [is_col is_empty orb].
  assert (D : negb (fst (coords t) =? fst (coords from)) = false).
  { destruct Ht as [Ht|[Hs Ht]]; unfold pt1, pt2 in Ht.
    - rewrite <- Ht, Z.eqb_refl in G3. lia.
    - unfold pt1 in Ht. rewrite <- Ht, Z.eqb_refl, Hs in G4. lia. }
  rewrite D, andb_false_r. reflexivity.
Qed.

Lemma flag_pawn : forall r, In r (pawn_from p from) -> tactical r = tacm p (rm r).
Proof.
  intros r H.
  destruct (lo_pawn _ _ _ _ _ _ (wf_lists_cur p Hwf) Hin) as [Hvf Hg].
  pose proof (wf_pawn_mid p from Hwf Hin) as Hm.
  destruct (pawn_facts1 (wturn p) from Hvf Hm) as [F1 [F2 [F3 [F4 [F5 _]]]]].
  fold (pt1 p from) (ptq p from) (ptk p from) in *. fold (pt2 p from) in *.
  unfold pawn_from in H. cbv zeta in H. rewrite adv_of_w, start_rank_of_w, promo_rank_of_w in H.
  fold (pt1 p from) (ptq p from) (ptk p from) in H. fold (pt2 p from) in H.
  rewrite !in_app_iff in H. destruct H as [H|[H|H]].
  - apply in_if2 in H as [C H]. apply in_pawn_capture_r in H as [T [Ef Et]]. rewrite T. symmetry.
    assert (V : validb (ptq p from) = true /\ capt_ok p (ptq p from) = true).
    { apply orb_prop in C as [C|C].
      - apply andb_prop in C as [C1 C2]. split; [apply onb_byte_valid; exact C1|].
        unfold capt_ok. rewrite C2. reflexivity.
      - apply Z.eqb_eq in C. destruct (wf_ep p Hwf) as [E'|[E1 E2]].
        + exfalso. apply F1. rewrite C, E'. reflexivity.
        + rewrite <- C in E1, E2. split; [exact E1|]. unfold capt_ok. rewrite E2, C, Z.eqb_refl. apply orb_true_r. }
    destruct V as [V1 V2]. apply (capture_tac (ptq p from)); auto.
  - apply in_if2 in H as [C H]. apply in_pawn_capture_r in H as [T [Ef Et]]. rewrite T. symmetry.
    assert (V : validb (ptk p from) = true /\ capt_ok p (ptk p from) = true).
    { apply orb_prop in C as [C|C].
      - assert (On : onb (ptk p from) = true).
        { destruct (onb (ptk p from)) eqn:On; [reflexivity|].
          rewrite (wf_offboard p (ptk p from) Hwf) in C; [discriminate C| |exact On].
          unfold ptk. pose proof (GenProofs.byte_nonneg (from + advw (wturn p) + 1)). lia. }
        split; [apply onb_byte_valid; exact On|]. unfold capt_ok. rewrite C. reflexivity.
      - apply Z.eqb_eq in C. destruct (wf_ep p Hwf) as [E'|[E1 E2]].
        + exfalso. apply F2. rewrite C, E'. reflexivity.
        + rewrite <- C in E1, E2. split; [exact E1|]. unfold capt_ok. rewrite E2, C, Z.eqb_refl. apply orb_true_r. }
    destruct V as [V1 V2]. apply (capture_tac (ptk p from)); auto.
  - destruct (get (board p) (pt1 p from)) eqn:E1; [|contradiction].
    apply in_app_iff in H as [H|H].
    + apply in_pawn_push_r in H as [T [Ef Et]]. rewrite T. symmetry.
      apply (push_tac (pt1 p from)); auto. rewrite E1. reflexivity.
    + destruct (rankof from =? startw (wturn p)) eqn:S; [|contradiction].
      destruct (get (board p) (pt2 p from)) eqn:E2; [|contradiction].
      destruct H as [H|[]]. subst r. cbn [tactical rm]. symmetry.
      destruct (F5 eq_refl) as [V2 _].
      rewrite (push_tac (pt2 p from)); auto. rewrite E2. reflexivity.
Qed.
End PawnFlag.

(* moves produced by move_or_capture *)
Lemma in_slide_r : forall fuel b c f s d r, In r (slide fuel b c f s d) ->
  exists t, r = move_or_capture b f t /\ onb t = true /\ negb (is_col c (get b t)) = true.
Proof.
  induction fuel as [|k IH]; intros b c f s d r H; cbn [slide] in H; [contradiction|]. cbv zeta in H.
  destruct (onb (byte (s + d))) eqn:On; [|contradiction].
  destruct (get b (byte (s + d))) as [|c' k'] eqn:G.
  - destruct H as [H|H].
    + exists (byte (s + d)). rewrite G. auto.
    + eapply IH. exact H.
  - destruct (color_eqb c c') eqn:CC; [contradiction|]. destruct H as [H|[]].
    exists (byte (s + d)). rewrite G. cbn [is_col]. rewrite CC. auto.
Qed.

Lemma in_steps_r : forall b filt from dirs r, In r (steps b filt from dirs) ->
  exists t, r = move_or_capture b from t /\ filt t = true.
Proof.
  intros b filt from dirs r H. unfold steps in H. apply in_flat_map in H as [d [_ H]]. cbv zeta in H.
  destruct (filt (byte (from + d))) eqn:F; [|contradiction]. destruct H as [H|[]]. eauto.
Qed.

Lemma moc_tac : forall p from to k, get (board p) from = Pc (cur_color p) k -> k <> Pawn ->
  negb (is_col (cur_color p) (get (board p) to)) = true ->
  tactical (move_or_capture (board p) from to) = tacm p (rm (move_or_capture (board p) from to)).
Proof.
  intros p from to k Hg Hk Hc. unfold tacm, move_or_capture, new_move. cbn [tactical rm mfrom mto mpromo].
  rewrite Hg, is_col_opp, Hc. cbn [is_pc]. rewrite color_eqb_refl. destruct k; try congruence; cbn; rewrite ?orb_false_r; reflexivity.
Qed.

Theorem flag_pseudo : forall p r, wf p = true -> In r (gen_pseudo p) -> tactical r = tacm p (rm r).
Proof.
  intros p r Hwf H. pose proof (wf_lists_cur p Hwf) as HL.
  rewrite gen_pseudo_eq, !in_app_iff in H. destruct H as [H|[H|[H|[H|H]]]].
  - apply in_flat_map in H as [from [Hin H]]. exact (flag_pawn p Hwf from Hin r H).
  - apply in_flat_map in H as [from [Hin H]].
    destruct (lo_piece _ _ _ _ _ _ HL Hin) as [Hvf [k [Hk Hg]]].
    assert (X : exists t, r = move_or_capture (board p) from t /\ negb (is_col (cur_color p) (get (board p) t)) = true).
    { unfold piece_from in H. cbv zeta in H. rewrite Hg in H. destruct k; try discriminate Hk.
      - apply in_steps_r in H as [t [E F]]. apply andb_prop in F as [_ F]. eauto.
      - apply in_flat_map in H as [d [_ H]]. apply in_slide_r in H as [t [E [_ F]]]. eauto.
      - apply in_flat_map in H as [d [_ H]]. apply in_slide_r in H as [t [E [_ F]]]. eauto.
      - apply in_flat_map in H as [d [_ H]]. apply in_slide_r in H as [t [E [_ F]]]. eauto. }
    destruct X as [t [E F]]. subst r. apply (moc_tac p from t k Hg); [|exact F]. destruct k; try discriminate Hk; discriminate.
  - destruct (lo_king _ _ _ _ _ HL) as [Hvf Hg].
    unfold king_steps in H. cbv zeta in H. apply in_steps_r in H as [t [E F]]. apply andb_prop in F as [F _].
    apply andb_prop in F as [_ F]. subst r. apply (moc_tac p _ t King Hg); [discriminate|exact F].
  - destruct (lo_king _ _ _ _ _ HL) as [Hvf Hg].
    unfold castle_q in H. destruct (can_castle_q p) eqn:C; [|contradiction]. destruct H as [H|[]]. subst r.
    unfold can_castle_q in C. cbv zeta in C. repeat (apply andb_prop in C as [C ?]).
    unfold tacm, new_move. cbn [tactical rm mfrom mto mpromo]. rewrite Hg.
    destruct (get (board p) (cur_king p - 2)); [|discriminate]. cbn [is_col is_pc orb]. rewrite color_eqb_refl. reflexivity.
  - destruct (lo_king _ _ _ _ _ HL) as [Hvf Hg].
    unfold castle_k in H. destruct (can_castle_k p) eqn:C; [|contradiction]. destruct H as [H|[]]. subst r.
    unfold can_castle_k in C. cbv zeta in C. repeat (apply andb_prop in C as [C ?]).
    unfold tacm, new_move. cbn [tactical rm mfrom mto mpromo]. rewrite Hg.
    destruct (get (board p) (cur_king p + 2)); [|discriminate]. cbn [is_col is_pc orb]. rewrite color_eqb_refl. reflexivity.
Qed.

Lemma gen_tactical_pure_filter : forall p, gen_tactical_pure p = filter tactical (gen_legal_pure p).
Proof. intros p. unfold gen_tactical_pure, gen_legal_pure. rewrite gen_pseudo_tactical_filter. apply filter_comm. Qed.

(* ================= legality of a pawn move does not depend on the promotion piece ================= *)

Lemma existsb_ext_in {A} (f g : A -> bool) l : (forall x, In x l -> f x = g x) -> existsb f l = existsb g l.
Proof.
  induction l as [|a l IH]; intros H; cbn [existsb]; [reflexivity|].
  rewrite (H a (or_introl eq_refl)), IH; [reflexivity|]. intros x Hx. apply H. right. exact Hx.
Qed.

Lemma slide_clear_sim : forall fuel b b' to sq dir dest, 0 <= to -> 0 <= sq ->
  (forall s, 0 <= s -> s <> to -> get b s = get b' s) -> get b to <> Empty -> get b' to <> Empty ->
  slide_clear fuel b sq dir dest = slide_clear fuel b' sq dir dest.
Proof.
  induction fuel as [|k IH]; intros b b' to sq dir dest H0 Hs Hsim N1 N2; cbn [slide_clear]; [reflexivity|].
  destruct (sq =? dest); [reflexivity|].
  destruct (Z.eq_dec sq to) as [->|Hne].
  - destruct (get b to); [congruence|]. destruct (get b' to); [congruence|]. reflexivity.
  - rewrite <- (Hsim sq Hs Hne). destruct (get b sq); [|reflexivity].
    apply (IH b b' to); auto. apply GenProofs.byte_nonneg.
Qed.

Lemma iuc_sim : forall b b' ps pw ek dest to c x y, 0 <= to -> 0 <= ek ->
  (forall s, 0 <= s -> s <> to -> get b s = get b' s) -> get b to = Pc c x -> get b' to = Pc c y ->
  (forall s, In s ps -> 0 <= s /\ s <> to) ->
  is_under_check b ps pw ek dest = is_under_check b' ps pw ek dest.
Proof.
  intros b b' ps pw ek dest to c x y H0 Hk Hsim G1 G2 Hps. unfold is_under_check.
  assert (PF : match get b ek with Pc Black _ => enc_BPawnAttacks | _ => enc_WPawnAttacks end
             = match get b' ek with Pc Black _ => enc_BPawnAttacks | _ => enc_WPawnAttacks end).
  { destruct (Z.eq_dec ek to) as [->|Hne]; [rewrite G1, G2; reflexivity|]. rewrite (Hsim ek Hk Hne). reflexivity. }
  cbv zeta. rewrite PF.
  match goal with |- _ || existsb ?f ps || _ = _ || existsb ?g ps || _ => assert (E : existsb f ps = existsb g ps) end;
    [|rewrite E; reflexivity].
  apply existsb_ext_in. intros from Hin. destruct (Hps from Hin) as [Hf Hne].
  rewrite <- (Hsim from Hf Hne). destruct (get b from) as [|c' k]; [reflexivity|].
  destruct (Z.land _ _ =? 0); [reflexivity|]. destruct (kind_eqb k Knight); [reflexivity|].
  apply (slide_clear_sim 8 b b' to); auto; [apply GenProofs.byte_nonneg|rewrite G1; discriminate|rewrite G2; discriminate].
Qed.

Lemma wf_caps : forall p, wf p = true -> (length (cur_pieces p) + length (cur_pawns p) <= pieceCap)%nat.
Proof.
  intros p H. unfold wf in H. cbv zeta in H. repeat (apply andb_prop in H as [H ?]).
  unfold cur_pieces, cur_pawns. destruct (wturn p); lia.
Qed.

Lemma promo_indep : forall p f t k e1 e2, wf p = true -> In f (cur_pawns p) -> validb t = true -> ep p <> t -> f <> t ->
  is_legal p (mk f t (Some k) e1) = is_legal p (mk f t None e2).
Proof.
  intros p f t k e1 e2 Hwf Hin Vt Hep Hft.
  pose proof (wf_lists_cur p Hwf) as HL. pose proof (wf_lists_en p Hwf) as HE.
  destruct (lo_pawn _ _ _ _ _ _ HL Hin) as [Vf Hg].
  destruct (wf_parts p Hwf) as [Hlen _].
  pose proof (validb_range _ Vf) as [Bf _]. pose proof (validb_range _ Vt) as [Bt _].
  unfold is_legal. rewrite (MirrorProofs.make_eq p (mk f t (Some k) e1)), (MirrorProofs.make_eq p (mk f t None e2)). unfold MirrorProofs.make_staged. cbn [mfrom mto mpromo mk].
  assert (S1a : MirrorProofs.stage1 (cur_color p) (board p) f t None (cur_pieces p) (cur_pawns p) (cur_king p)
                = Ok (cur_pieces p, replace_first (cur_pawns p) f t, cur_king p, board p, false)).
  { unfold MirrorProofs.stage1. cbv zeta. rewrite Hg. cbn [is_pc]. rewrite color_eqb_refl. reflexivity. }
  destruct (index_of_In f _ Hin) as [i Hi].
  assert (S1b : MirrorProofs.stage1 (cur_color p) (board p) f t (Some k) (cur_pieces p) (cur_pawns p) (cur_king p)
                = Ok (cur_pieces p ++ [t], swap_remove (cur_pawns p) i, cur_king p, board p, false)).
  { unfold MirrorProofs.stage1. cbv zeta. rewrite Hg. cbn [is_pc]. rewrite color_eqb_refl. cbn [kind_eqb andb]. rewrite Hi.
    rewrite append_cap_Ok; [reflexivity|]. pose proof (wf_caps p Hwf). destruct (cur_pawns p); [destruct Hin|cbn [length] in *; lia]. }
  rewrite S1a, S1b. cbn [bind]. cbv beta iota.
  destruct (MirrorProofs.stage2 (opp (cur_color p)) (board p) t (en_pieces p) (en_pawns p)) as [[ep1 epw1]|w] eqn:S2;
    cbn [bind]; [|reflexivity]. cbv beta iota.
  destruct (MirrorProofs.stage2_inv _ _ _ _ _ _ _ _ HE S2) as [I2 _].
  unfold MirrorProofs.stage3. cbv zeta.
  assert (Q : (ep p =? t) = false) by (apply Z.eqb_neq; exact Hep). rewrite Q. cbn [andb bind]. cbv beta iota.
  apply (f_equal negb).
  destruct (lo_king _ _ _ _ _ HE) as [Vk _]. pose proof (validb_range _ Vk) as [Bk _].
  apply (iuc_sim _ _ _ _ _ _ t (cur_color p) k Pawn); try lia.
  - intros s Hs Hne. destruct (Z.eq_dec s f) as [->|Hnf].
    + rewrite !get_set_same; [reflexivity|rewrite set_length; lia|rewrite set_length; lia].
    + rewrite !get_set_other by lia. reflexivity.
  - rewrite get_set_other by lia. apply get_set_same. lia.
  - rewrite get_set_other by lia. rewrite get_set_same by lia. exact Hg.
  - intros s Hs. destruct (I2 s Hs) as [Hs' Hne]. split; [|exact Hne].
    destruct (lo_piece _ _ _ _ _ _ HE Hs') as [Vs _]. apply validb_range in Vs. lia.
Qed.

(* ================= a castling move that passes castle_ok never leaves the king in check (rules level) ================= *)

Definition memsq (y : Spec.sq) (l : list Spec.sq) : bool := existsb (Spec.sq_eqb y) l.
Lemma memsq_In : forall y l, In y l -> memsq y l = true.
Proof. intros y l H. unfold memsq. apply existsb_exists. exists y. split; [exact H|apply sq_eqb_refl]. Qed.
Lemma memsq_true : forall y l, memsq y l = true -> In y l.
Proof. intros y l H. unfold memsq in H. apply existsb_exists in H as [z [Hz E]]. apply sq_eqb_eq in E. subst z. exact Hz. Qed.

Definition castle_geo (h : Z) (side : bool) : bool :=
  let s := (4, h) in let t := if side then (6, h) else (2, h) in
  let rf := if side then (7, h) else (0, h) in let rt := if side then (5, h) else (3, h) in
  forallb (fun x => implb (Spec.piece_attacks nob White Queen x t)
                      (implb (memsq s (betw x t)) (memsq rt (betw x t)) && negb (memsq rf (betw x t)))) Spec.all_sq.
Lemma castle_geo_sweep : forallb (fun h => forallb (castle_geo h) [true; false]) [0; 7] = true.
Proof. vm_compute. reflexivity. Qed.

Section CastleSafe.
Variable a : Spec.position.
Variable side : bool.
Let b := Spec.brd a.
Let c := Spec.turn a.
Let h := Spec.home_rank c.
Let s : Spec.sq := (4, h).
Let t : Spec.sq := if side then (6, h) else (2, h).
Let rf : Spec.sq := if side then (7, h) else (0, h).
Let rt : Spec.sq := if side then (5, h) else (3, h).
Hypothesis Hok : Spec.castle_ok a side = true.
Hypothesis Huniq : forall x, In x Spec.all_sq -> Spec.has b x c King = true -> x = s.
Let m := {| Spec.mfrom := s; Spec.mto := t; Spec.promo := None |}.
Let b3 := Spec.brd (Spec.apply a m).

Lemma castle_king : Spec.has b s c King = true /\ Spec.attacked b (opp c) t = false.
Proof.
  unfold Spec.castle_ok in Hok. cbv zeta in Hok. fold b c h in Hok. unfold t, s. destruct side.
  - repeat (apply andb_prop in Hok as [Hok ?]). split; [assumption|]. apply negb_true_iff. assumption.
  - repeat (apply andb_prop in Hok as [Hok ?]). split; [assumption|]. apply negb_true_iff. assumption.
Qed.

Lemma castle_bs : b s = Some (c, King).
Proof.
  destruct castle_king as [H _]. unfold Spec.has in H. destruct (b s) as [[c' k]|]; [|discriminate].
  apply andb_prop in H as [H1 H2]. apply color_eqb_eq in H1. destruct k; try discriminate H2. subst c'. reflexivity.
Qed.

Lemma b3_eq : forall x, b3 x =
  if Spec.sq_eqb x rt then Some (c, Rook) else if Spec.sq_eqb x rf then None
  else if Spec.sq_eqb x t then Some (c, King) else if Spec.sq_eqb x s then None else b x.
Proof.
  intros x. unfold b3, Spec.apply. cbv zeta. cbn [Spec.brd Spec.mfrom Spec.mto Spec.promo m]. fold b c.
  assert (P : Spec.has b s c Pawn = false). { unfold Spec.has. rewrite castle_bs, color_eqb_refl. reflexivity. }
  assert (K : Spec.has b s c King = true) by exact (proj1 castle_king).
  assert (D : (fst t - fst s =? 2) = side) by (unfold t, s; destruct side; reflexivity).
  assert (D' : (fst t - fst s =? -2) = negb side) by (unfold t, s; destruct side; reflexivity).
  rewrite P, K, D, D', castle_bs. cbn [andb]. unfold Spec.set, rt, rf, t, s. destruct side; cbn [negb snd]; reflexivity.
Qed.

Lemma special_distinct :
  Spec.sq_eqb t rt = false /\ Spec.sq_eqb t rf = false /\ Spec.sq_eqb s rt = false /\ Spec.sq_eqb s rf = false /\ Spec.sq_eqb s t = false.
Proof. unfold t, rt, rf, s, Spec.sq_eqb. destruct side; cbn [fst snd]; repeat split; lia. Qed.

Lemma h_cases : h = 0 \/ h = 7.
Proof. unfold h. destruct c; [left|right]; reflexivity. Qed.

Lemma t_in : In t Spec.all_sq.
Proof. apply on_in_all. unfold t, Spec.on. destruct h_cases as [-> | ->]; destruct side; reflexivity. Qed.

Lemma geo : forall x, In x Spec.all_sq -> Spec.piece_attacks nob White Queen x t = true ->
  (In s (betw x t) -> In rt (betw x t)) /\ ~ In rf (betw x t).
Proof.
  intros x Hx Hq. assert (G : castle_geo h side = true).
  { pose proof castle_geo_sweep as S. cbn [forallb] in S. rewrite !andb_true_iff in S.
    destruct h_cases as [-> | ->]; destruct side; tauto. }
  unfold castle_geo in G. cbv zeta in G. rewrite forallb_forall in G. specialize (G x Hx). change (if side then (6, h) else (2, h)) with t in G.
  change (if side then (5, h) else (3, h)) with rt in G. change (if side then (7, h) else (0, h)) with rf in G.
  rewrite Hq in G. cbn [implb] in G. apply andb_prop in G as [G1 G2]. split.
  - intros H. apply memsq_In in H. change (4, h) with s in G1. rewrite H in G1. cbn [implb] in G1. apply memsq_true. exact G1.
  - intros H. apply memsq_In in H. rewrite H in G2. discriminate.
Qed.

Lemma castle_king_sq : Spec.king_sq b3 c = Some t.
Proof.
  destruct special_distinct as [D1 [D2 _]].
  unfold Spec.king_sq. apply find_unique; [|exact t_in|].
  - intros x Hx Hh. unfold Spec.has in Hh. rewrite b3_eq in Hh.
    destruct (Spec.sq_eqb x rt); [rewrite andb_false_r in Hh; discriminate|].
    destruct (Spec.sq_eqb x rf); [discriminate|].
    destruct (Spec.sq_eqb x t) eqn:E; [apply sq_eqb_eq; exact E|].
    destruct (Spec.sq_eqb x s) eqn:E2; [discriminate|].
    assert (x = s) by (apply Huniq; assumption). subst x. rewrite sq_eqb_refl in E2. discriminate.
  - unfold Spec.has. rewrite b3_eq, D1, D2, sq_eqb_refl, color_eqb_refl. reflexivity.
Qed.

Lemma castle_not_attacked : Spec.attacked b3 (opp c) t = false.
Proof.
  destruct (Spec.attacked b3 (opp c) t) eqn:A; [exfalso|reflexivity].
  destruct castle_king as [_ NA].
  assert (X : Spec.attacked b (opp c) t = true); [clear NA|rewrite X in NA; discriminate].
  unfold Spec.attacked in *. apply existsb_exists in A as [x [Hx H]]. apply andb_prop in H as [Ho Ha].
  apply existsb_exists. exists x. split; [exact Hx|].
  assert (Ex : b3 x = b x).
  { unfold Spec.owned in Ho. rewrite b3_eq in Ho |- *.
    destruct (Spec.sq_eqb x rt); [rewrite color_eqb_opp, color_eqb_refl in Ho; discriminate|].
    destruct (Spec.sq_eqb x rf); [discriminate|].
    destruct (Spec.sq_eqb x t); [rewrite color_eqb_opp, color_eqb_refl in Ho; discriminate|].
    destruct (Spec.sq_eqb x s); [discriminate|]. reflexivity. }
  unfold Spec.owned, Spec.attacks in *. rewrite Ex in *.
  destruct (b x) as [[c' k]|]; [|discriminate]. rewrite Ho. cbn [andb].
  assert (BE : Spec.piece_attacks nob White Queen x t = true ->
               Spec.between_empty b3 x t = true -> Spec.between_empty b x t = true).
  { intros Hq. rewrite !between_empty_betw, !forallb_forall. intros H y Hy. pose proof (H y Hy) as Hy3.
    destruct (geo x Hx Hq) as [G1 G2].
    unfold Spec.empty in *. rewrite b3_eq in Hy3.
    destruct (Spec.sq_eqb y rt); [discriminate|].
    destruct (Spec.sq_eqb y rf) eqn:E2; [apply sq_eqb_eq in E2; subst y; contradiction|].
    destruct (Spec.sq_eqb y t); [discriminate|].
    destruct (Spec.sq_eqb y s) eqn:E4; [|exact Hy3].
    apply sq_eqb_eq in E4. subst y. specialize (H rt (G1 Hy)). rewrite b3_eq, sq_eqb_refl in H. discriminate. }
  destruct (is_slider k) eqn:SK.
  - rewrite (pa_split b3 _ _ _ _ SK) in Ha. rewrite (pa_split b _ _ _ _ SK). apply andb_prop in Ha as [Ha1 Ha2].
    rewrite Ha1, (BE (slider_queen k x t SK Ha1) Ha2). reflexivity.
  - destruct k; try discriminate SK; exact Ha.
Qed.

Lemma castle_not_in_check : Spec.in_check (Spec.brd (Spec.apply a m)) c = false.
Proof. fold b3. unfold Spec.in_check. rewrite castle_king_sq. exact castle_not_attacked. Qed.
End CastleSafe.

(* ================= counting the legal moves of a list ================= *)

Definition cnt (p : pos) (l : list rmove) : Z := Z.of_nat (length (filter (fun r => is_legal p (rm r)) l)).
Lemma cnt_nil : forall p, cnt p [] = 0.
Proof. reflexivity. Qed.
Lemma cnt_cons : forall p r l, cnt p (r :: l) = b2z (is_legal p (rm r)) + cnt p l.
Proof. intros p r l. unfold cnt. cbn [filter]. destruct (is_legal p (rm r)); cbn [length b2z]; lia. Qed.
Lemma cnt_one : forall p r, cnt p [r] = b2z (is_legal p (rm r)).
Proof. intros p r. rewrite cnt_cons, cnt_nil. lia. Qed.
Lemma cnt_app : forall p l l', cnt p (l ++ l') = cnt p l + cnt p l'.
Proof. intros p l l'. unfold cnt. rewrite filter_app, app_length. lia. Qed.
Lemma cnt_flat_map {A} : forall p (f : A -> list rmove) l, cnt p (flat_map f l) = zsum (map (fun x => cnt p (f x)) l).
Proof.
  intros p f l. induction l as [|x l IH]; cbn [flat_map map]; [reflexivity|].
  rewrite cnt_app, zsum_cons, IH. reflexivity.
Qed.
Lemma cnt_if : forall p (c : bool) l, cnt p (if c then l else []) = if c then cnt p l else 0.
Proof. intros p c l. destruct c; reflexivity. Qed.

Lemma count_slide_cnt : forall fuel p c f s d, count_slide fuel p c f s d = cnt p (slide fuel (board p) c f s d).
Proof.
  induction fuel as [|k IH]; intros p c f s d; cbn [count_slide slide]; [reflexivity|]. cbv zeta.
  destruct (onb (byte (s + d))); [|reflexivity].
  destruct (get (board p) (byte (s + d))) as [|c' k'].
  - rewrite cnt_cons, IH. reflexivity.
  - destruct (color_eqb c c'); [reflexivity|]. rewrite cnt_one. reflexivity.
Qed.
Lemma count_slide_cap_cnt : forall fuel p c f s d, count_slide_cap fuel p c f s d = cnt p (slide_cap fuel (board p) c f s d).
Proof.
  induction fuel as [|k IH]; intros p c f s d; cbn [count_slide_cap slide_cap]; [reflexivity|]. cbv zeta.
  destruct (onb (byte (s + d))); [|reflexivity].
  destruct (get (board p) (byte (s + d))) as [|c' k'].
  - apply IH.
  - destruct (color_eqb c c'); [reflexivity|]. rewrite cnt_one. reflexivity.
Qed.

(* ================= en passant squares and ranks ================= *)

Lemma ep_rank : forall p, wf p = true -> ep p = INVALID \/ rankof (ep p) = (if wturn p then 80 else 32).
Proof.
  intros p H. destruct (wf_parts p H) as [_ [_ [_ [_ [_ [_ HE]]]]]]. unfold ep_ok in HE.
  apply orb_prop in HE as [HE|HE]; [left; apply Z.eqb_eq; exact HE|right].
  cbv zeta in HE. destruct (wturn p); repeat (apply andb_prop in HE as [HE ?]); apply Z.eqb_eq; assumption.
Qed.

Definition ep_geo (w : bool) (from : Z) : bool :=
  implb (midrank from)
   (let epr := if w then 80 else 32 in
    implb (rankof (byte (from + advw w - 1)) =? epr) (negb (rankof from =? startw w))
    && implb (rankof (byte (from + advw w + 1)) =? epr) (negb (rankof from =? startw w))
    && negb (promow w =? epr) && negb (promow w =? 128) && negb (rankof from =? promow w)).
Lemma ep_geo_sweep : forallb (fun w => forallb (ep_geo w) valid_squares) [true; false] = true.
Proof. vm_compute. reflexivity. Qed.

Lemma ep_facts : forall p from, wf p = true -> In from (cur_pawns p) ->
  (ptq p from = ep p -> (rankof from =? start_rank_of p) = false)
  /\ (ptk p from = ep p -> (rankof from =? start_rank_of p) = false)
  /\ (forall t, rankof t = promo_rank_of p -> ep p <> t /\ from <> t).
Proof.
  intros p from Hwf Hin.
  destruct (lo_pawn _ _ _ _ _ _ (wf_lists_cur p Hwf) Hin) as [Hvf Hg].
  pose proof (wf_pawn_mid p from Hwf Hin) as Hm.
  destruct (pawn_facts1 (wturn p) from Hvf Hm) as [F1 [F2 _]].
  assert (G : ep_geo (wturn p) from = true).
  { pose proof ep_geo_sweep as S. cbn [forallb] in S. apply andb_prop in S as [S1 S2]. apply andb_prop in S2 as [S2 _].
    destruct (wturn p); [exact (sweep1 _ S1 from Hvf)|exact (sweep1 _ S2 from Hvf)]. }
  unfold ep_geo in G. rewrite Hm in G. cbn [implb] in G. cbv zeta in G.
  repeat (apply andb_prop in G as [G ?]).
  rewrite start_rank_of_w, promo_rank_of_w. unfold ptq, ptk.
  destruct (ep_rank p Hwf) as [E|E].
  - split; [|split].
    + intros X. exfalso. apply F1. rewrite X, E. reflexivity.
    + intros X. exfalso. apply F2. rewrite X, E. reflexivity.
    + intros t Ht. split; [|intro X; subst t; lia]. rewrite E. intro X. subst t. change (rankof INVALID) with 128 in Ht. lia.
  - split; [|split].
    + intros X. rewrite X, E, Z.eqb_refl in G. cbn [implb] in G. apply negb_true_iff. exact G.
    + intros X. rewrite X, E, Z.eqb_refl in H2. cbn [implb] in H2. apply negb_true_iff. exact H2.
    + intros t Ht. split; [|intro X; subst t; lia]. intro X. subst t. lia.
Qed.

(* ================= pawns ================= *)

Section PawnCount.
Variable p : pos.
Hypothesis Hwf : wf p = true.
Variable from : Z.
Hypothesis Hin : In from (cur_pawns p).

Lemma cnt_promo4 : forall t, validb t = true -> rankof t = promo_rank_of p ->
  cnt p (promo4 from t) = if is_legal p (new_move from t) then 4 else 0.
Proof.
  intros t Vt Hr. destruct (ep_facts p from Hwf Hin) as [_ [_ X]]. destruct (X t Hr) as [X1 X2].
  assert (Y : forall k, is_legal p {| mfrom := from; mto := t; mpromo := Some k; mep := INVALID |} = is_legal p (new_move from t))
    by (intros k; apply (promo_indep p from t k INVALID INVALID); auto).
  unfold promo4. cbn [map]. rewrite !cnt_cons, cnt_nil. cbn [rm]. rewrite !Y.
  destruct (is_legal p (new_move from t)); reflexivity.
Qed.

Lemma cnt_pawn_capture : forall t, validb t = true ->
  cnt p (pawn_capture from t (promo_rank_of p)) = count_pawn p from t (promo_rank_of p).
Proof.
  intros t Vt. unfold pawn_capture, count_pawn. destruct (rankof t =? promo_rank_of p) eqn:E.
  - apply cnt_promo4; [exact Vt|apply Z.eqb_eq; exact E].
  - rewrite cnt_one. cbn [rm]. destruct (is_legal p (new_move from t)); reflexivity.
Qed.
Lemma cnt_pawn_push : forall t, validb t = true ->
  cnt p (pawn_push from t (promo_rank_of p)) = count_pawn p from t (promo_rank_of p).
Proof.
  intros t Vt. unfold pawn_push, count_pawn. destruct (rankof t =? promo_rank_of p) eqn:E.
  - apply cnt_promo4; [exact Vt|apply Z.eqb_eq; exact E].
  - rewrite cnt_one. cbn [rm]. destruct (is_legal p (new_move from t)); reflexivity.
Qed.

Lemma cnt_if2 : forall (a b : bool) l, cnt p (if a then l else if b then l else []) = if a || b then cnt p l else 0.
Proof. intros a b l. destruct a, b; reflexivity. Qed.

(* validity of the capture targets when their guard holds *)
Lemma ptq_valid : ((onb (ptq p from) && is_col (opp (cur_color p)) (get (board p) (ptq p from))) || (ptq p from =? ep p)) = true ->
  validb (ptq p from) = true.
Proof.
  intros C.
  destruct (lo_pawn _ _ _ _ _ _ (wf_lists_cur p Hwf) Hin) as [Hvf Hg].
  destruct (pawn_facts1 (wturn p) from Hvf (wf_pawn_mid p from Hwf Hin)) as [F1 _]. fold (ptq p from) in F1.
  apply orb_prop in C as [C|C].
  - apply andb_prop in C as [C1 C2]. apply onb_byte_valid. exact C1.
  - apply Z.eqb_eq in C. destruct (wf_ep p Hwf) as [E'|[E1 E2]].
    + exfalso. apply F1. rewrite C, E'. reflexivity.
    + rewrite C. exact E1.
Qed.
Lemma ptk_valid : (is_col (opp (cur_color p)) (get (board p) (ptk p from)) || (ptk p from =? ep p)) = true ->
  validb (ptk p from) = true.
Proof.
  intros C.
  destruct (lo_pawn _ _ _ _ _ _ (wf_lists_cur p Hwf) Hin) as [Hvf Hg].
  destruct (pawn_facts1 (wturn p) from Hvf (wf_pawn_mid p from Hwf Hin)) as [_ [F2 _]]. fold (ptk p from) in F2.
  apply orb_prop in C as [C|C].
  - assert (On : onb (ptk p from) = true).
    { destruct (onb (ptk p from)) eqn:On; [reflexivity|].
      rewrite (wf_offboard p (ptk p from) Hwf) in C; [discriminate C| |exact On].
      unfold ptk. pose proof (GenProofs.byte_nonneg (from + advw (wturn p) + 1)). lia. }
    apply onb_byte_valid. exact On.
  - apply Z.eqb_eq in C. destruct (wf_ep p Hwf) as [E'|[E1 E2]].
    + exfalso. apply F2. rewrite C, E'. reflexivity.
    + rewrite C. exact E1.
Qed.

Lemma pawn_cnt_eq : MirrorProofs.pawn_cnt p from = cnt p (pawn_from p from).
Proof.
  destruct (lo_pawn _ _ _ _ _ _ (wf_lists_cur p Hwf) Hin) as [Hvf Hg].
  pose proof (wf_pawn_mid p from Hwf Hin) as Hm.
  destruct (pawn_facts1 (wturn p) from Hvf Hm) as [F1 [F2 [F3 [F4 [F5 _]]]]].
  destruct (ep_facts p from Hwf Hin) as [X1 [X2 _]].
  unfold MirrorProofs.pawn_cnt, pawn_from. cbv zeta. rewrite !cnt_app, Z.add_assoc.
  change (byte (from + adv_of p - 1)) with (ptq p from). change (byte (from + adv_of p + 1)) with (ptk p from).
  change (byte (from + adv_of p)) with (pt1 p from). change (byte (pt1 p from + adv_of p)) with (pt2 p from).
  fold (pt1 p from) (ptq p from) (ptk p from) in F1, F2, F3. fold (pt2 p from) in F5.
  apply (f_equal2 Z.add); [apply (f_equal2 Z.add)|].
  - rewrite cnt_if2.
    assert (G : onb (ptq p from) && (is_col (opp (cur_color p)) (get (board p) (ptq p from))
                  || (ptq p from =? ep p) && negb (rankof from =? start_rank_of p))
              = (onb (ptq p from) && is_col (opp (cur_color p)) (get (board p) (ptq p from))) || (ptq p from =? ep p)).
    { destruct (ptq p from =? ep p) eqn:B.
      - assert (V : validb (ptq p from) = true) by (apply ptq_valid; rewrite B; apply orb_true_r).
        apply validb_range in V as [_ On]. rewrite On, (X1 (proj1 (Z.eqb_eq _ _) B)). cbn. rewrite !orb_true_r. reflexivity.
      - cbn [andb]. rewrite !orb_false_r. reflexivity. }
    rewrite G. clear G. match goal with |- (if ?c then _ else _) = _ => destruct c eqn:C end; [|reflexivity]. symmetry. apply cnt_pawn_capture. apply ptq_valid. exact C.
  - rewrite cnt_if2.
    assert (G : is_col (opp (cur_color p)) (get (board p) (ptk p from))
                  || (ptk p from =? ep p) && negb (rankof from =? start_rank_of p)
              = is_col (opp (cur_color p)) (get (board p) (ptk p from)) || (ptk p from =? ep p)).
    { destruct (ptk p from =? ep p) eqn:B.
      - rewrite (X2 (proj1 (Z.eqb_eq _ _) B)). reflexivity.
      - reflexivity. }
    rewrite G. clear G. match goal with |- (if ?c then _ else _) = _ => destruct c eqn:C end; [|reflexivity]. symmetry. apply cnt_pawn_capture. apply ptk_valid. exact C.
  - destruct (get (board p) (pt1 p from)); [|reflexivity].
    rewrite cnt_app, (cnt_pawn_push _ F3). apply (f_equal2 Z.add); [reflexivity|].
    destruct (rankof from =? start_rank_of p); [|reflexivity].
    destruct (get (board p) (pt2 p from)); [|reflexivity]. rewrite cnt_one. reflexivity.
Qed.

(* the same for the tactical generator / counter *)
Definition pawn_from_t (p : pos) (from : Z) : list rmove :=
  let c := cur_color p in let e := opp c in let b := board p in
  let adv := adv_of p in let promo_rank := promo_rank_of p in
      let tq := byte (from + adv - 1) in
      let q := if onb tq && is_col e (get b tq) then pawn_capture from tq promo_rank
               else if tq =? ep p then pawn_capture from tq promo_rank else [] in
      let tk := byte (from + adv + 1) in
      let k := if is_col e (get b tk) then pawn_capture from tk promo_rank
               else if tk =? ep p then pawn_capture from tk promo_rank else [] in
      let t1 := byte (from + adv) in
      let pu := match get b t1 with Empty => if rankof t1 =? promo_rank then promo4 from t1 else [] | _ => [] end in
      q ++ k ++ pu.
Definition pawn_cnt_t (p : pos) (from : Z) : Z :=
  let c := cur_color p in let e := opp c in let b := board p in
  let adv := adv_of p in let promo_rank := promo_rank_of p in
      let tq := byte (from + adv - 1) in
      let q := if onb tq && (is_col e (get b tq) || (tq =? ep p)) then count_pawn p from tq promo_rank else 0 in
      let tk := byte (from + adv + 1) in
      let k := if is_col e (get b tk) || (tk =? ep p) then count_pawn p from tk promo_rank else 0 in
      let t1 := byte (from + adv) in
      let pu := if is_empty (get b t1) && (rankof t1 =? promo_rank) then count_pawn p from t1 promo_rank else 0 in
      q + k + pu.

Lemma pawn_cnt_t_eq : pawn_cnt_t p from = cnt p (pawn_from_t p from).
Proof.
  destruct (lo_pawn _ _ _ _ _ _ (wf_lists_cur p Hwf) Hin) as [Hvf Hg].
  pose proof (wf_pawn_mid p from Hwf Hin) as Hm.
  destruct (pawn_facts1 (wturn p) from Hvf Hm) as [F1 [F2 [F3 [F4 [F5 _]]]]].
  unfold pawn_cnt_t, pawn_from_t. cbv zeta. rewrite !cnt_app, Z.add_assoc.
  change (byte (from + adv_of p - 1)) with (ptq p from). change (byte (from + adv_of p + 1)) with (ptk p from).
  change (byte (from + adv_of p)) with (pt1 p from).
  fold (pt1 p from) (ptq p from) (ptk p from) in F1, F2, F3.
  apply (f_equal2 Z.add); [apply (f_equal2 Z.add)|].
  - rewrite cnt_if2.
    assert (G : onb (ptq p from) && (is_col (opp (cur_color p)) (get (board p) (ptq p from)) || (ptq p from =? ep p))
              = (onb (ptq p from) && is_col (opp (cur_color p)) (get (board p) (ptq p from))) || (ptq p from =? ep p)).
    { destruct (ptq p from =? ep p) eqn:B.
      - assert (V : validb (ptq p from) = true) by (apply ptq_valid; rewrite B; apply orb_true_r).
        apply validb_range in V as [_ On]. rewrite On. cbn. rewrite !orb_true_r. reflexivity.
      - rewrite !orb_false_r. reflexivity. }
    rewrite G. clear G. match goal with |- (if ?c then _ else _) = _ => destruct c eqn:C end; [|reflexivity]. symmetry. apply cnt_pawn_capture. apply ptq_valid. exact C.
  - rewrite cnt_if2. match goal with |- (if ?c then _ else _) = _ => destruct c eqn:C end; [|reflexivity]. symmetry. apply cnt_pawn_capture. apply ptk_valid. exact C.
  - destruct (get (board p) (pt1 p from)); [|reflexivity]. cbn [is_empty andb].
    destruct (rankof (pt1 p from) =? promo_rank_of p) eqn:E; [|reflexivity].
    rewrite (cnt_promo4 _ F3 (proj1 (Z.eqb_eq _ _) E)). unfold count_pawn. rewrite E. reflexivity.
Qed.
End PawnCount.

(* ================= pieces ================= *)

Lemma steps_cnt : forall p from filt dirs,
  cnt p (steps (board p) filt from dirs)
  = zsum (map (fun d => let t := byte (from + d) in if filt t then b2z (is_legal p (new_move from t)) else 0) dirs).
Proof.
  intros p from filt dirs. unfold steps. rewrite cnt_flat_map. apply MirrorProofs.zsum_map_ext. intros d _. cbv zeta.
  rewrite cnt_if, cnt_one. reflexivity.
Qed.

Lemma piece_cnt_eq : forall p from, MirrorProofs.piece_cnt p from = cnt p (piece_from p from).
Proof.
  intros p from. unfold MirrorProofs.piece_cnt, piece_from. cbv zeta.
  destruct (get (board p) from) as [|c0 k]; [reflexivity|]. destruct k; try reflexivity.
  - rewrite steps_cnt. reflexivity.
  - rewrite cnt_flat_map. apply MirrorProofs.zsum_map_ext. intros d _. apply count_slide_cnt.
  - rewrite cnt_flat_map. apply MirrorProofs.zsum_map_ext. intros d _. apply count_slide_cnt.
  - rewrite cnt_flat_map. apply MirrorProofs.zsum_map_ext. intros d _. apply count_slide_cnt.
Qed.

Lemma count_tactical_eq : forall p, count_tactical p =
  zsum (map (pawn_cnt_t p) (cur_pawns p))
  + zsum (map (fun from =>
      match get (board p) from with
      | Pc _ Knight => zsum (map (fun d => let t := byte (from + d) in
                         if onb t && is_col (opp (cur_color p)) (get (board p) t) then b2z (is_legal p (new_move from t)) else 0) knight_dirs)
      | Pc _ Bishop => zsum (map (count_slide_cap 7 p (cur_color p) from from) bishop_dirs)
      | Pc _ Rook => zsum (map (count_slide_cap 7 p (cur_color p) from from) rook_dirs)
      | Pc _ Queen => zsum (map (count_slide_cap 7 p (cur_color p) from from) queen_dirs)
      | _ => 0
      end) (cur_pieces p))
  + zsum (map (fun d => let t := byte (cur_king p + d) in
      if onb t && is_col (opp (cur_color p)) (get (board p) t) then b2z (is_legal p (new_move (cur_king p) t)) else 0) king_dirs).
Proof. reflexivity. Qed.

Lemma gen_pseudo_tactical_eq : forall p, gen_pseudo_tactical p =
  flat_map (pawn_from_t p) (cur_pawns p)
  ++ flat_map (fun from =>
      match get (board p) from with
      | Pc _ Knight => steps (board p) (fun t => onb t && is_col (opp (cur_color p)) (get (board p) t)) from knight_dirs
      | Pc _ Bishop => flat_map (slide_cap 7 (board p) (cur_color p) from from) bishop_dirs
      | Pc _ Rook => flat_map (slide_cap 7 (board p) (cur_color p) from from) rook_dirs
      | Pc _ Queen => flat_map (slide_cap 7 (board p) (cur_color p) from from) queen_dirs
      | _ => []
      end) (cur_pieces p)
  ++ steps (board p) (fun t => onb t && is_col (opp (cur_color p)) (get (board p) t) && safe_sq p t) (cur_king p) king_dirs.
Proof. reflexivity. Qed.

(* ================= the rules do not see the difference between extensionally equal positions ================= *)

Lemma forallb_ext_in {A} (f g : A -> bool) l : (forall x, In x l -> f x = g x) -> forallb f l = forallb g l.
Proof.
  induction l as [|a l IH]; intros H; cbn [forallb]; [reflexivity|].
  rewrite (H a (or_introl eq_refl)), IH; [reflexivity|]. intros x Hx. apply H. right. exact Hx.
Qed.
Lemma find_ext_in {A} (f g : A -> bool) l : (forall x, In x l -> f x = g x) -> find f l = find g l.
Proof.
  induction l as [|a l IH]; intros H; cbn [find]; [reflexivity|].
  rewrite (H a (or_introl eq_refl)), IH; [reflexivity|]. intros x Hx. apply H. right. exact Hx.
Qed.
Lemma fold_left_ext {A B} (f g : A -> B -> A) l : (forall a x, f a x = g a x) -> forall a, fold_left f l a = fold_left g l a.
Proof. intros H. induction l as [|x l IH]; intros a; cbn [fold_left]; [reflexivity|]. rewrite H. apply IH. Qed.

Definition beq (b b' : Spec.board) : Prop := forall s, b s = b' s.

Section BoardExt.
Variables b b' : Spec.board.
Hypothesis Hb : beq b b'.

Lemma has_ext : forall s c k, Spec.has b s c k = Spec.has b' s c k.
Proof. intros. unfold Spec.has. rewrite Hb. reflexivity. Qed.
Lemma empty_ext : forall s, Spec.empty b s = Spec.empty b' s.
Proof. intros. unfold Spec.empty. rewrite Hb. reflexivity. Qed.
Lemma owned_ext : forall s c, Spec.owned b s c = Spec.owned b' s c.
Proof. intros. unfold Spec.owned. rewrite Hb. reflexivity. Qed.
Lemma between_empty_ext : forall s t, Spec.between_empty b s t = Spec.between_empty b' s t.
Proof. intros. unfold Spec.between_empty. cbv zeta. apply forallb_ext_in. intros x _. apply empty_ext. Qed.
Lemma piece_attacks_ext : forall c k s t, Spec.piece_attacks b c k s t = Spec.piece_attacks b' c k s t.
Proof. intros. unfold Spec.piece_attacks. rewrite between_empty_ext. reflexivity. Qed.
Lemma attacks_ext : forall s t, Spec.attacks b s t = Spec.attacks b' s t.
Proof. intros. unfold Spec.attacks. rewrite Hb. destruct (b' s) as [[c k]|]; [apply piece_attacks_ext|reflexivity]. Qed.
Lemma attacked_ext : forall c t, Spec.attacked b c t = Spec.attacked b' c t.
Proof. intros. unfold Spec.attacked. apply existsb_ext_in. intros x _. rewrite owned_ext, attacks_ext. reflexivity. Qed.
Lemma king_sq_ext : forall c, Spec.king_sq b c = Spec.king_sq b' c.
Proof. intros. unfold Spec.king_sq. apply find_ext_in. intros x _. apply has_ext. Qed.
Lemma in_check_ext : forall c, Spec.in_check b c = Spec.in_check b' c.
Proof. intros. unfold Spec.in_check. rewrite king_sq_ext. destruct (Spec.king_sq b' c); [apply attacked_ext|reflexivity]. Qed.
End BoardExt.

Section PosExt.
Variables a a' : Spec.position.
Hypothesis E : pos_equiv a a'.

Lemma pe_brd : beq (Spec.brd a) (Spec.brd a'). Proof. exact (proj1 E). Qed.
Lemma pe_turn : Spec.turn a = Spec.turn a'. Proof. exact (proj1 (proj2 E)). Qed.

Lemma castle_ok_ext : forall side, Spec.castle_ok a side = Spec.castle_ok a' side.
Proof.
  intros side. destruct E as [Hb [Ht [HK [HQ _]]]]. unfold Spec.castle_ok. cbv zeta.
  rewrite <- Ht, !(has_ext _ _ Hb), !(empty_ext _ _ Hb), !(attacked_ext _ _ Hb), HK, HQ. reflexivity.
Qed.

Lemma pseudo_ext : forall m, Spec.pseudo a m = Spec.pseudo a' m.
Proof.
  intros m. destruct E as [Hb [Ht [HK [HQ [He _]]]]]. unfold Spec.pseudo. cbv zeta.
  rewrite <- Ht, <- He, !castle_ok_ext, !(owned_ext _ _ Hb), !(empty_ext _ _ Hb), !(attacks_ext _ _ Hb), (Hb (Spec.mfrom m)).
  reflexivity.
Qed.

Lemma apply_ext : forall m, pos_equiv (Spec.apply a m) (Spec.apply a' m).
Proof.
  intros m. destruct E as [Hb [Ht [HK [HQ [He Hp]]]]]. unfold Spec.apply, pos_equiv. cbv zeta.
  cbn [Spec.brd Spec.turn Spec.rK Spec.rQ Spec.ep Spec.ply].
  rewrite <- Ht, <- Hp, !(has_ext _ _ Hb), !(empty_ext _ _ Hb), (Hb (Spec.mfrom m)).
  split; [|split; [reflexivity|split; [|split; [|split; reflexivity]]]].
  - intros x. unfold Spec.set.
    repeat match goal with |- context [if ?c then _ else _] => destruct c end; try reflexivity; apply Hb.
  - intros c. rewrite HK. reflexivity.
  - intros c. rewrite HQ. reflexivity.
Qed.

Lemma legal_ext : forall m, Spec.legal a m = Spec.legal a' m.
Proof.
  intros m. unfold Spec.legal. rewrite pseudo_ext, pe_turn.
  rewrite (in_check_ext _ _ (proj1 (apply_ext m))). reflexivity.
Qed.

Lemma legal_moves_ext : Spec.legal_moves a = Spec.legal_moves a'.
Proof. unfold Spec.legal_moves. apply filter_ext. exact legal_ext. Qed.
End PosExt.

Lemma paths_ext : forall n a a', pos_equiv a a' -> Spec.paths n a = Spec.paths n a'.
Proof.
  induction n as [|k IH]; intros a a' E; cbn [Spec.paths]; [reflexivity|].
  rewrite (legal_moves_ext a a' E). apply fold_left_ext. intros acc m. rewrite (IH _ _ (apply_ext a a' E m)). reflexivity.
Qed.

(* ================= the candidate list of the rules has no duplicates ================= *)

Lemma all_sq_NoDup : NoDup Spec.all_sq.
Proof.
  rewrite <- coords_map. apply NoDup_map_inj_in; [exact valid_squares_NoDup|].
  intros x y Hx Hy. apply coords_inj; apply validb_In; assumption.
Qed.

Lemma candidates_NoDup : NoDup Spec.candidates.
Proof.
  unfold Spec.candidates. apply NoDup_flat_map_disj; [exact all_sq_NoDup| |].
  - intros s _. apply NoDup_flat_map_disj; [exact all_sq_NoDup| |].
    + intros t _. apply NoDup_map_inj_in.
      * unfold Spec.promos. repeat constructor; cbn [In]; intuition discriminate.
      * intros x y _ _ H. inversion H. reflexivity.
    + intros x y z _ _ Hx Hy. apply in_map_iff in Hx as [px [Ex _]]. apply in_map_iff in Hy as [py [Ey _]].
      rewrite <- Ey in Ex. inversion Ex. reflexivity.
  - intros x y z _ _ Hx Hy. apply in_flat_map in Hx as [tx [_ Hx]]. apply in_flat_map in Hy as [ty [_ Hy]].
    apply in_map_iff in Hx as [px [Ex _]]. apply in_map_iff in Hy as [py [Ey _]].
    rewrite <- Ey in Ex. inversion Ex. reflexivity.
Qed.

Lemma legal_moves_NoDup : forall a, NoDup (Spec.legal_moves a).
Proof. intros a. unfold Spec.legal_moves. apply NoDup_filter. exact candidates_NoDup. Qed.

Lemma legal_moves_In : forall a m, Spec.legal a m = true -> In m (Spec.legal_moves a).
Proof.
  intros a [s t pr] H. unfold Spec.legal_moves. apply filter_In. split; [|exact H].
  unfold Spec.legal in H. apply andb_prop in H as [P _]. unfold Spec.pseudo in P. cbv zeta in P. cbn [Spec.mfrom Spec.mto Spec.promo] in P.
  apply andb_prop in P as [P1 P2]. apply andb_prop in P1 as [P1 _]. apply andb_prop in P1 as [Ons Ont].
  assert (Hpr : In pr Spec.promos).
  { destruct (Spec.brd a s) as [[c' k]|]; [|discriminate]. apply andb_prop in P2 as [_ P2].
    destruct k.
    - apply andb_prop in P2 as [P2 _]. unfold Spec.promo_ok in P2. unfold Spec.promos.
      destruct (snd t =? Spec.last_rank (Spec.turn a)); destruct pr as [[]|]; try discriminate; cbn [In]; auto 10.
    - apply andb_prop in P2 as [P2 _]. apply no_promo_None in P2. subst pr. left. reflexivity.
    - apply andb_prop in P2 as [P2 _]. apply no_promo_None in P2. subst pr. left. reflexivity.
    - apply andb_prop in P2 as [P2 _]. apply no_promo_None in P2. subst pr. left. reflexivity.
    - apply andb_prop in P2 as [P2 _]. apply no_promo_None in P2. subst pr. left. reflexivity.
    - apply andb_prop in P2 as [P2 _]. apply no_promo_None in P2. subst pr. left. reflexivity. }
  unfold Spec.candidates. apply in_flat_map. exists s. split; [apply on_in_all; exact Ons|].
  apply in_flat_map. exists t. split; [apply on_in_all; exact Ont|]. apply in_map_iff. exists pr. auto.
Qed.

(* ================= sums ================= *)

Lemma fold_add_zsum {A} (g : A -> Z) l : forall a, fold_left (fun acc m => acc + g m) l a = a + zsum (map g l).
Proof.
  induction l as [|x l IH]; intros a; cbn [fold_left map]; [rewrite zsum_nil; lia|].
  rewrite IH, zsum_cons. lia.
Qed.
Lemma zsum_ones {A} (l : list A) : zsum (map (fun _ => 1) l) = Z.of_nat (length l).
Proof. induction l as [|x l IH]; cbn [map length]; [reflexivity|]. rewrite zsum_cons, IH. lia. Qed.

(* ================= make reports its own verdict ================= *)

Lemma bind_ok {A B} (r : result A) (f : A -> result B) x : bind r f = Ok x -> exists y, r = Ok y /\ f y = Ok x.
Proof. destruct r; cbn; intros H; [eauto | discriminate]. Qed.

Lemma make_verdict : forall p m p' v, make p m = Ok (p', v) -> v = not_capturable p'.
Proof.
  intros p m p' v H. rewrite MirrorProofs.make_eq in H. unfold MirrorProofs.make_staged in H.
  apply bind_ok in H as [[[[[cp cpw] ck] b1] km] [_ H]].
  apply bind_ok in H as [[ep1 epw1] [_ H]].
  apply bind_ok in H as [[b3 epw2] [_ H]].
  inversion H; subst. unfold not_capturable, in_check, flip_turn, MirrorProofs.build, en_pieces, en_pawns, en_king, cur_king.
  cbv zeta. destruct (wturn p); reflexivity.
Qed.

Lemma perft_SS : forall k p, perft (S (S k)) p =
  do ms <- gen_legal p;
  fold_left (fun acc r => do a <- acc; do p' <- make_legal p (rm r); do v <- perft (S k) p'; Ok (a + v)) ms (Ok 0).
Proof. reflexivity. Qed.
Lemma paths_S : forall k a, Spec.paths (S k) a = fold_left (fun acc m => acc + Spec.paths k (Spec.apply a m)) (Spec.legal_moves a) 0.
Proof. reflexivity. Qed.


(* ================= the theorems, given the statement about MakeMove ================= *)

Section CountProofs.
Hypothesis make_spec : make_spec_statement.

Theorem tactical_flag_exact : forall p l r, wf_legal p = true -> ply p + 1 < 32767 -> gen_legal p = Ok l -> In r l ->
  tactical r = Spec.is_tactical (abs p) (absm (rm r)).
Proof.
  intros p l r Hl Hp E Hin. rewrite (gen_guards_ok make_spec p Hl Hp) in E. inversion E; subst l.
  pose proof (wf_of_legal p Hl) as Hwf.
  unfold gen_legal_pure in Hin. apply filter_In in Hin as [Hin _].
  destruct (gen_pseudo_sound p (rm r) Hwf (in_map rm _ _ Hin)) as [V1 [V2 _]].
  rewrite (tacm_spec p (rm r) V1 V2). apply flag_pseudo; assumption.
Qed.

Lemma gen_tactical_guards_ok : forall p, wf_legal p = true -> ply p + 1 < 32767 -> gen_tactical p = Ok (gen_tactical_pure p).
Proof.
  intros p Hl Hp. pose proof (wf_of_legal p Hl) as Hwf. unfold gen_tactical.
  rewrite (board_index_safe_wf p Hwf), (pieces_ok_wf p Hwf). cbn [negb].
  assert (A : all_ok p (gen_pseudo_tactical p) = true).
  { unfold all_ok. apply forallb_forall. intros r Hr. rewrite gen_pseudo_tactical_filter in Hr. apply filter_In in Hr as [Hr _].
    apply (make_generated make_spec p (rm r) Hl Hp). apply in_map. exact Hr. }
  rewrite A. reflexivity.
Qed.

Theorem gen_tactical_exact : forall p, wf_legal p = true -> ply p + 1 < 32767 ->
  exists l, gen_tactical p = Ok l
    /\ NoDup (map (fun r => absm (rm r)) l)
    /\ (forall sm, In sm (map (fun r => absm (rm r)) l) <-> (Spec.legal (abs p) sm = true /\ Spec.is_tactical (abs p) sm = true)).
Proof.
  intros p Hl Hp. exists (gen_tactical_pure p). split; [exact (gen_tactical_guards_ok p Hl Hp)|].
  destruct (gen_legal_exact make_spec p Hl Hp) as [l [E [ND [M _]]]].
  rewrite (gen_guards_ok make_spec p Hl Hp) in E. inversion E; subst l. clear E.
  rewrite gen_tactical_pure_filter. split.
  - eapply sub_NoDup; [|exact ND]. apply sub_map. apply sub_filter.
  - intros sm. rewrite in_map_iff. split.
    + intros [r [E Hr]]. apply filter_In in Hr as [Hr T]. subst sm. split.
      * apply M. apply in_map_iff. exists r. auto.
      * rewrite <- (tactical_flag_exact p _ r Hl Hp (gen_guards_ok make_spec p Hl Hp) Hr). exact T.
    + intros [L T]. apply M in L. apply in_map_iff in L as [r [E Hr]]. exists r. split; [exact E|].
      apply filter_In. split; [exact Hr|]. subst sm.
      rewrite (tactical_flag_exact p _ r Hl Hp (gen_guards_ok make_spec p Hl Hp) Hr). exact T.
Qed.

(* a king step onto an attacked square is never legal: the counters need no pre-filter *)
Lemma king_unsafe_illegal : forall p d, wf_legal p = true -> ply p + 1 < 32767 -> In d king_dirs ->
  onb (byte (cur_king p + d)) = true -> negb (is_col (cur_color p) (get (board p) (byte (cur_king p + d)))) = true ->
  safe_sq p (byte (cur_king p + d)) = false -> is_legal p (new_move (cur_king p) (byte (cur_king p + d))) = false.
Proof.
  intros p d Hl Hp Hd On Hc Hs. pose proof (wf_of_legal p Hl) as Hwf.
  set (t := byte (cur_king p + d)) in *.
  assert (Vt : validb t = true) by (apply onb_byte_valid; exact On).
  destruct (lo_king _ _ _ _ _ (wf_lists_cur p Hwf)) as [Vk Hg].
  assert (PA : Spec.piece_attacks nob White King (coords (cur_king p)) (coords t) = true).
  { apply (step_hit King king_dirs kingstep_sweep _ _ Vk Vt). exists d. split; [exact Hd|reflexivity]. }
  assert (Ha : Spec.attacks (abs_board (board p)) (coords (cur_king p)) (coords t) = true).
  { unfold Spec.attacks. rewrite (abs_at _ _ Vk), Hg. exact PA. }
  assert (P : Spec.pseudo (abs p) (absm (new_move (cur_king p) t)) = true).
  { unfold absm, new_move. cbn [mfrom mto mpromo]. rewrite (pseudo_king p _ t None Vk Vt Hg), Hc, Ha. reflexivity. }
  assert (M : mep_ok p (new_move (cur_king p) t)).
  { unfold mep_ok, new_move. cbn [mfrom mto mep]. symmetry. apply (mep_nonpawn p _ t King Hg). discriminate. }
  destruct (make_spec p (new_move (cur_king p) t) Hl Hp Vk Vt P M) as [p' [E _]]. unfold is_legal. rewrite E.
  rewrite (king_prefilter_harmless p _ Hwf P); [reflexivity| | |].
  - unfold absm, new_move. cbn [Spec.mfrom mfrom]. rewrite (abs_has _ _ _ _ Vk), Hg. cbn [is_pc]. rewrite color_eqb_refl. reflexivity.
  - exact Ha.
  - unfold absm, new_move. cbn [Spec.mto mto]. rewrite (safe_spec p t Hwf Vt) in Hs. apply negb_false_iff in Hs. exact Hs.
Qed.

Lemma king_uniq : forall p, wf p = true ->
  forall x, In x Spec.all_sq -> Spec.has (Spec.brd (abs p)) x (Spec.turn (abs p)) King = true -> x = coords (cur_king p).
Proof.
  intros p Hwf x Hx Hh. destruct (all_sq_valid x Hx) as [Vx Ex].
  rewrite abs_brd, abs_turn in Hh. rewrite <- Ex, (abs_has _ _ _ _ Vx) in Hh. apply is_pc_eq in Hh.
  pose proof (lo_cell _ _ _ _ _ _ _ (wf_lists_cur p Hwf) Vx Hh) as E1. cbv iota in E1. rewrite <- Ex, E1. reflexivity.
Qed.

Lemma castle_q_legal : forall p, wf_legal p = true -> ply p + 1 < 32767 -> can_castle_q p = true ->
  is_legal p (new_move (cur_king p) (cur_king p - 2)) = true.
Proof.
  intros p Hl Hp C. pose proof (wf_of_legal p Hl) as Hwf.
  assert (Hin : In (new_move (cur_king p) (cur_king p - 2)) (map rm (gen_pseudo p))).
  { rewrite gen_pseudo_eq, !map_app, !in_app_iff. right. right. right. left. unfold castle_q. rewrite C. left. reflexivity. }
  destruct (make_generated make_spec p _ Hl Hp Hin) as [_ L]. rewrite L. apply negb_true_iff.
  destruct (castle_home p Hwf (can_q_flag p C)) as [K1 K2].
  assert (Hok : Spec.castle_ok (abs p) false = true) by (rewrite <- (castle_q_spec p Hwf); exact C).
  assert (T : coords (cur_king p - 2) = (2, Spec.home_rank (cur_color p))).
  { rewrite K1. unfold cur_color. destruct (wturn p); reflexivity. }
  unfold absm, new_move. cbn [mfrom mto mpromo]. rewrite K2, T.
  apply (castle_not_in_check (abs p) false Hok). intros x Hx Hh. rewrite (king_uniq p Hwf x Hx Hh). exact K2.
Qed.

Lemma castle_k_legal : forall p, wf_legal p = true -> ply p + 1 < 32767 -> can_castle_k p = true ->
  is_legal p (new_move (cur_king p) (cur_king p + 2)) = true.
Proof.
  intros p Hl Hp C. pose proof (wf_of_legal p Hl) as Hwf.
  assert (Hin : In (new_move (cur_king p) (cur_king p + 2)) (map rm (gen_pseudo p))).
  { rewrite gen_pseudo_eq, !map_app, !in_app_iff. right. right. right. right. unfold castle_k. rewrite C. left. reflexivity. }
  destruct (make_generated make_spec p _ Hl Hp Hin) as [_ L]. rewrite L. apply negb_true_iff.
  destruct (castle_home p Hwf (can_k_flag p C)) as [K1 K2].
  assert (Hok : Spec.castle_ok (abs p) true = true) by (rewrite <- (castle_k_spec p Hwf); exact C).
  assert (T : coords (cur_king p + 2) = (6, Spec.home_rank (cur_color p))).
  { rewrite K1. unfold cur_color. destruct (wturn p); reflexivity. }
  unfold absm, new_move. cbn [mfrom mto mpromo]. rewrite K2, T.
  apply (castle_not_in_check (abs p) true Hok). intros x Hx Hh. rewrite (king_uniq p Hwf x Hx Hh). exact K2.
Qed.

Lemma count_moves_cnt : forall p, wf_legal p = true -> ply p + 1 < 32767 -> count_moves p = cnt p (gen_pseudo p).
Proof.
  intros p Hl Hp. pose proof (wf_of_legal p Hl) as Hwf.
  rewrite MirrorProofs.count_moves_eq, gen_pseudo_eq, !cnt_app, !Z.add_assoc.
  apply (f_equal2 Z.add); [apply (f_equal2 Z.add); [apply (f_equal2 Z.add); [apply (f_equal2 Z.add)|]|]|].
  - rewrite cnt_flat_map. apply MirrorProofs.zsum_map_ext. intros from Hin. apply pawn_cnt_eq; assumption.
  - rewrite cnt_flat_map. apply MirrorProofs.zsum_map_ext. intros from _. apply piece_cnt_eq.
  - unfold king_steps. cbv zeta. rewrite steps_cnt. apply MirrorProofs.zsum_map_ext. intros d Hd.
    unfold MirrorProofs.step_cnt. cbv zeta.
    destruct (onb (byte (cur_king p + d))) eqn:On; [|reflexivity]. cbn [andb].
    destruct (negb (is_col (cur_color p) (get (board p) (byte (cur_king p + d))))) eqn:Hc; [|reflexivity]. cbn [andb].
    destruct (safe_sq p (byte (cur_king p + d))) eqn:Hs; [reflexivity|].
    rewrite (king_unsafe_illegal p d Hl Hp Hd On Hc Hs). reflexivity.
  - unfold castle_q. destruct (can_castle_q p) eqn:C; [|reflexivity]. rewrite cnt_one. cbn [rm].
    rewrite (castle_q_legal p Hl Hp C). reflexivity.
  - unfold castle_k. destruct (can_castle_k p) eqn:C; [|reflexivity]. rewrite cnt_one. cbn [rm].
    rewrite (castle_k_legal p Hl Hp C). reflexivity.
Qed.

Theorem count_moves_exact : forall p l, wf_legal p = true -> ply p + 1 < 32767 -> gen_legal p = Ok l ->
  count_moves p = Z.of_nat (length l).
Proof.
  intros p l Hl Hp E. rewrite (gen_guards_ok make_spec p Hl Hp) in E. inversion E; subst l.
  exact (count_moves_cnt p Hl Hp).
Qed.

Lemma count_tactical_cnt : forall p, wf_legal p = true -> ply p + 1 < 32767 -> count_tactical p = cnt p (gen_pseudo_tactical p).
Proof.
  intros p Hl Hp. pose proof (wf_of_legal p Hl) as Hwf.
  rewrite count_tactical_eq, gen_pseudo_tactical_eq, !cnt_app, !Z.add_assoc.
  apply (f_equal2 Z.add); [apply (f_equal2 Z.add)|].
  - rewrite cnt_flat_map. apply MirrorProofs.zsum_map_ext. intros from Hin. apply pawn_cnt_t_eq; assumption.
  - rewrite cnt_flat_map. apply MirrorProofs.zsum_map_ext. intros from _.
    destruct (get (board p) from) as [|c0 k]; [reflexivity|]. destruct k; try reflexivity.
    + rewrite steps_cnt. reflexivity.
    + rewrite cnt_flat_map. apply MirrorProofs.zsum_map_ext. intros d _. apply count_slide_cap_cnt.
    + rewrite cnt_flat_map. apply MirrorProofs.zsum_map_ext. intros d _. apply count_slide_cap_cnt.
    + rewrite cnt_flat_map. apply MirrorProofs.zsum_map_ext. intros d _. apply count_slide_cap_cnt.
  - rewrite steps_cnt. apply MirrorProofs.zsum_map_ext. intros d Hd. cbv zeta.
    destruct (onb (byte (cur_king p + d))) eqn:On; [|reflexivity]. cbn [andb].
    destruct (is_col (opp (cur_color p)) (get (board p) (byte (cur_king p + d)))) eqn:Hc; [|reflexivity]. cbn [andb].
    destruct (safe_sq p (byte (cur_king p + d))) eqn:Hs; [reflexivity|].
    rewrite (king_unsafe_illegal p d Hl Hp Hd On); [reflexivity| |exact Hs].
    rewrite is_col_opp in Hc. apply andb_prop in Hc as [Hc _]. exact Hc.
Qed.

Theorem count_tactical_exact : forall p l, wf_legal p = true -> ply p + 1 < 32767 -> gen_tactical p = Ok l ->
  count_tactical p = Z.of_nat (length l).
Proof.
  intros p l Hl Hp E. rewrite (gen_tactical_guards_ok p Hl Hp) in E. inversion E; subst l.
  exact (count_tactical_cnt p Hl Hp).
Qed.

Lemma make_legal_generated : forall p r, wf_legal p = true -> ply p + 1 < 32767 -> In r (gen_legal_pure p) ->
  exists p', make_legal p (rm r) = Ok p' /\ wf_legal p' = true /\ ply p' = ply p + 1
     /\ pos_equiv (abs p') (Spec.apply (abs p) (absm (rm r))).
Proof.
  intros p r Hl Hp Hin. pose proof (wf_of_legal p Hl) as Hwf.
  unfold gen_legal_pure in Hin. apply filter_In in Hin as [Hin Hleg].
  destruct (gen_pseudo_sound p (rm r) Hwf (in_map rm _ _ Hin)) as [V1 [V2 [M P]]].
  destruct (make_spec p (rm r) Hl Hp V1 V2 P M) as [p' [E [W Q]]].
  unfold is_legal in Hleg. rewrite E in Hleg.
  exists p'. split; [|split; [|split]].
  - unfold make_legal. rewrite E. cbn [bind snd fst]. rewrite Hleg. reflexivity.
  - unfold wf_legal. rewrite W. cbn [andb]. rewrite <- (make_verdict p (rm r) p' _ E). exact Hleg.
  - destruct Q as [_ [_ [_ [_ [_ Q]]]]]. exact Q.
  - exact Q.
Qed.

Lemma gen_perm : forall p, wf_legal p = true -> ply p + 1 < 32767 ->
  Permutation (map (fun r => absm (rm r)) (gen_legal_pure p)) (Spec.legal_moves (abs p)).
Proof.
  intros p Hl Hp. destruct (gen_legal_exact make_spec p Hl Hp) as [l [E [ND [M _]]]].
  rewrite (gen_guards_ok make_spec p Hl Hp) in E. inversion E; subst l. clear E.
  apply NoDup_Permutation; [exact ND|apply legal_moves_NoDup|].
  intros x. rewrite M. split.
  - apply legal_moves_In.
  - intros H. unfold Spec.legal_moves in H. apply filter_In in H as [_ H]. exact H.
Qed.

Theorem perft_exact : forall n p, wf_legal p = true -> ply p + Z.of_nat n < 32767 -> perft n p = Ok (Spec.paths n (abs p)).
Proof.
  induction n as [|n IH]; intros p Hl Hp; [reflexivity|].
  assert (Hp1 : ply p + 1 < 32767) by lia.
  destruct n as [|k].
  - cbn [perft]. apply f_equal. rewrite paths_S, fold_add_zsum, Z.add_0_l.
    change (zsum (map (fun m => Spec.paths 0 (Spec.apply (abs p) m)) (Spec.legal_moves (abs p))))
      with (zsum (map (fun _ : Spec.move => 1) (Spec.legal_moves (abs p)))).
    rewrite zsum_ones, (count_moves_exact p _ Hl Hp1 (gen_guards_ok make_spec p Hl Hp1)).
    rewrite <- (Permutation_length (gen_perm p Hl Hp1)), map_length. reflexivity.
  - rewrite perft_SS, (gen_guards_ok make_spec p Hl Hp1). cbn [bind].
    set (g := fun m => Spec.paths (S k) (Spec.apply (abs p) m)).
    assert (F : forall l, (forall r, In r l -> In r (gen_legal_pure p)) -> forall a0,
      fold_left (fun acc r => do a <- acc; do p' <- make_legal p (rm r); do v <- perft (S k) p'; Ok (a + v)) l (Ok a0)
      = Ok (a0 + zsum (map (fun r => g (absm (rm r))) l))).
    { induction l as [|r l IHl]; intros Hsub a0; cbn [fold_left map].
      - rewrite zsum_nil, Z.add_0_r. reflexivity.
      - destruct (make_legal_generated p r Hl Hp1 (Hsub r (or_introl eq_refl))) as [p' [E1 [W [Pl Q]]]].
        cbn [bind]. rewrite E1. cbn [bind]. rewrite (IH p' W) by lia. cbn [bind].
        rewrite IHl by (intros r' Hr'; apply Hsub; right; exact Hr').
        rewrite zsum_cons. apply f_equal. unfold g at 2. rewrite (paths_ext _ _ _ Q). lia. }
    rewrite (F _ (fun r H => H)), Z.add_0_l. apply f_equal.
    rewrite paths_S, fold_add_zsum, Z.add_0_l. fold g.
    rewrite <- (map_map (fun r => absm (rm r)) g). apply zsum_perm. apply Permutation_map. exact (gen_perm p Hl Hp1).
Qed.
End CountProofs.

Print Assumptions gen_tactical_exact.
Print Assumptions tactical_flag_exact.
Print Assumptions count_moves_exact.
Print Assumptions count_tactical_exact.
Print Assumptions perft_exact.
Check gen_tactical_exact.
Check tactical_flag_exact.
Check count_moves_exact.
Check count_tactical_exact.
Check perft_exact.
