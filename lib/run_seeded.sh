#!/bin/bash
# run_seeded.sh [extra check ids per mutant from meta]: applies every seeded change to /repo in turn, runs the check of the
# property it breaks (quick tier), reverts.  Prints one line per change.  /repo must be clean.
# SEEDED_FILTER=<regex> restricts the run to the matching directory names.
cd /verif
[ -n "$(git -C /repo status --short)" ] && { echo "/repo not clean"; exit 2; }
for d in seeded/*/; do
  name=$(basename $d)
  [ -n "$SEEDED_FILTER" ] && ! echo "$name" | grep -Eq "$SEEDED_FILTER" && continue
  id=${name%%-*}; id=${id:0:3}
  git -C /repo apply /verif/$d/patch.diff || { echo "$name: patch does not apply"; continue; }
  out=$(VERIF_DEV=1 ./check $id --tier quick 2>&1); rc=$?
  nv=$(echo "$out" | grep -c '^VIOLATION')
  git -C /repo checkout -- .
  echo "$name: check $id exit=$rc violations=$nv $(echo "$out" | grep '^VIOLATION' | head -1 | grep -o 'no-failing-input-found')"
done
