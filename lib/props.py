"""One function per property: runs its streams against /repo and the model, judges the property, returns coverage."""
import json, os, re, time, random, hashlib
import common
from common import RUN, log, harness, read_lines, run_oracle
import uci

CHECKS = {}


def check(pid, theorems, race=False):
    def deco(fn):
        CHECKS[pid] = {'fn': fn, 'theorems': theorems, 'race': race}
        return fn
    return deco


class Ctx:
    def __init__(self, pid, tier, build, verdict):
        self.pid, self.tier, self.b, self.v = pid, tier, build, verdict
        self.quick = tier != 'thorough'
        self.corr_broken = []       # model/impl disagreements that the property-level judge could not turn into a failing input
        self.assumptions = []
        self.rng = random.Random(common.seed())


def generated_const(name):
    m = re.search(r'Definition %s : Z := \((-?\d+)\)\.' % name, open(common.COQ + '/Generated.v').read())
    return int(m.group(1))


def run(pid, tier, replay):
    t0 = time.time()
    spec = CHECKS[pid]
    b = common.build(need_race=spec['race'] and tier == 'thorough')
    if not b.ok_go:
        print('cannot build /repo or the harness:\n' + b.coq_log[-2000:])
        return 2
    v = common.Verdict(pid, tier)
    ctx = Ctx(pid, tier, b, v)
    if replay:
        data = json.load(open(replay if os.path.isabs(replay) else common.V + '/' + replay))
        fn = REPLAYS.get(pid)
        if fn is None:
            print('no replay routine for', pid)
            return 2
        still = fn(ctx, data)
        print('replay: violation %s' % ('REPRODUCED' if still else 'not reproduced'))
        return 1 if still else 0
    n_thm, n_closed, thm_details, thm_failed = common.check_theorems(spec['theorems'])
    log('theorems: %d stated, %d closed under the global context; failed files: %s' % (n_thm, n_closed, thm_failed))
    cov = spec['fn'](ctx) or {}
    # a broken proof / audit / correspondence without a concrete failing input is still a violation (brief): say so
    if not v.violations:
        if thm_failed or n_closed < n_thm:
            v.violation('proof-obligation-broken', {'files': thm_failed, 'details': thm_details,
                        'note': 'a theorem of this property no longer checks against the current /repo (Generated.v or model changed); '
                                'the search over model and implementation found no input on which the property itself fails'}, no_input=True)
        elif b.audit:
            v.violation('audit', {'forbidden': b.audit}, no_input=True)
        elif ctx.corr_broken:
            v.violation('correspondence-broken', {'disagreements': ctx.corr_broken[:10], 'count': len(ctx.corr_broken),
                        'note': 'model and implementation disagree on these inputs; re-judged against the property itself none of them fails it'},
                        no_input=True)
    coverage = {
        'obligations': n_thm, 'discharged': n_closed,
        'checker_cmd': 'cd /verif/coq && make -j16 (full .vo build) && ' + ' && '.join('coqc -R . Magog %s' % f for f in spec['theorems']),
        'trusted_base': common.TRUSTED_BASE,
        'theorems': thm_details,
        'generated_v_changed_in_this_run': b.generated_changed,
        'coq_files_not_compiled': b.coq_failed,
        'audit_findings': b.audit,
    }
    coverage.update(cov)
    coverage.setdefault('evaluations', 0)
    coverage.setdefault('distinct_nontrivial', 0)
    common.write_evidence(pid, tier, coverage, ctx.assumptions, time.time() - t0, len(v.violations))
    log('%s %s: %d violation(s), %.1fs' % (pid, tier, len(v.violations), time.time() - t0))
    return v.exit_code()


REPLAYS = {}

# =====================================================================================================
# C13  time allotment


def _time_lattice_judge(ctx, cases, impl):
    margin = generated_const('antiflagMillis')
    lat = {}
    pat = re.compile(r'^TIME\t([wb])\twtime (-?\d+) btime (-?\d+) winc (-?\d+) binc (-?\d+) movestogo (-?\d+)$')
    mt = re.compile(r'^TIME\t([wb])\tmovetime (-?\d+)$')
    nontrivial = set()
    for c, r in zip(cases, impl):
        m = pat.match(c)
        if m and r.startswith('NS '):
            ns = int(r.split()[1])
            side = m.group(1)
            wt, bt, wi, bi, mtg = map(int, m.groups()[1:])
            left, inc, oleft, oinc = (wt, wi, bt, bi) if side == 'w' else (bt, bi, wt, wi)
            lat.setdefault((side, left, inc, mtg), {})[(oleft, oinc)] = ns
            if ns != 1000000:
                nontrivial.add((side, left, inc, mtg))
            continue
        m = mt.match(c)
        if m and r.startswith('NS '):
            T = int(m.group(2))
            ns = int(r.split()[1])
            if T != -1 and abs(T) <= 4 * 10**12 and ns != (T - margin) * 10**6:
                ctx.v.violation('movetime', {'case': c, 'impl_ns': ns, 'expected_ns': (T - margin) * 10**6,
                                             'statement': 'movetime T allots T minus the margin'}, signature='movetime-%d' % T)
    # (a) mover's clock only
    for key, others in lat.items():
        vals = set(others.values())
        if len(vals) > 1:
            a, b2 = list(others.items())[0], [x for x in others.items() if x[1] != list(others.values())[0]][0]
            ctx.v.violation('other-clock-matters', {'side': key[0], 'mover_left': key[1], 'mover_inc': key[2], 'movestogo': key[3],
                            'other_side_params_a': a[0], 'ns_a': a[1], 'other_side_params_b': b2[0], 'ns_b': b2[1],
                            'statement': 'allotted time depends only on the clock of the side to move'},
                            signature='otherclock-%s-%d-%d-%d' % key)
            return len(lat), len(nontrivial)
    val = {k: list(o.values())[0] for k, o in lat.items()}
    # (b) bounds
    for (side, left, inc, mtg), ns in val.items():
        ms = ns // 10**6
        if ns % 10**6 != 0 or ms < 1 or ms > max(1, left - margin):
            ctx.v.violation('bounds', {'side': side, 'left': left, 'inc': inc, 'movestogo': mtg, 'impl_ns': ns,
                            'statement': '1 ms <= allotted <= max(1, remaining - margin)'}, signature='bounds-%s-%d-%d-%d' % (side, left, inc, mtg))
            return len(lat), len(nontrivial)
    # (c) monotone in left and inc, antitone in movestogo, along the lattice
    lefts = sorted({k[1] for k in val})
    incs = sorted({k[2] for k in val})
    mtgs = sorted({k[3] for k in val})
    for side in 'wb':
        for a in range(len(lefts)):
            for b2 in range(len(incs)):
                for c in range(len(mtgs)):
                    k = (side, lefts[a], incs[b2], mtgs[c])
                    if k not in val:
                        continue
                    for k2, kind, sign in (((side, lefts[a + 1], incs[b2], mtgs[c]) if a + 1 < len(lefts) else None, 'left', 1),
                                           ((side, lefts[a], incs[b2 + 1], mtgs[c]) if b2 + 1 < len(incs) else None, 'inc', 1),
                                           ((side, lefts[a], incs[b2], mtgs[c + 1]) if c + 1 < len(mtgs) else None, 'movestogo', -1)):
                        if k2 is None or k2 not in val:
                            continue
                        if (val[k2] - val[k]) * sign < 0:
                            ctx.v.violation('monotonicity', {'parameter': kind, 'a': k, 'ns_a': val[k], 'b': k2, 'ns_b': val[k2],
                                            'statement': 'more remaining time or increment never yields less, more moves-to-go never yields more'},
                                            signature='mono-%s-%s' % (kind, '-'.join(map(str, k))))
                            return len(lat), len(nontrivial)
    return len(lat), len(nontrivial)


def _wallclock(ctx, n):
    """bestmove no later than the allotted deadline plus the minimal depth-1 search (validation; retried)."""
    fens = ['r3k2r/p1ppqpb1/bn2pnp1/3PN3/1p2P3/2N2Q1p/PPPBBPPP/R3K2R w KQkq - 0 1',
            'rnbqkbnr/pppppppp/8/8/8/8/PPPPPPPP/RNBQKBNR w KQkq - 0 1',
            'r4rk1/1pp1qppp/p1np1n2/2b1p1B1/2B1P1b1/P1NP1N2/1PP1QPPP/R4RK1 b - - 0 10',
            '8/2p5/3p4/KP5r/1R3p1k/8/4P1P1/8 w - - 0 1']
    margin = generated_const('antiflagMillis')
    e = uci.Engine()
    e.ready()
    samples, late = [], 0
    for i in range(n):
        fen = fens[i % len(fens)]
        white = ' w ' in fen
        form = i % 4
        if form == 0:
            T = [1, 60, 120, 300][(i // 4) % 4]
            cmd, allot = 'go movetime %d' % T, T - margin
        else:
            left = [100, 400, 3000, 9000][(i // 4) % 4]
            inc = [0, 50, 200][i % 3]
            mtg = [1, 5, 30][(i // 2) % 3]
            cmd = 'go wtime %d btime %d winc %d binc %d movestogo %d' % ((left, 77777, inc, 0, mtg) if white else (77777, left, 0, inc, mtg))
            allot = max(1, (min(left // mtg + inc, left) if left > inc else left) - margin)
        ok = False
        for attempt in range(3):
            e.send('position fen ' + fen)
            e.ready()
            # cost of the minimal depth-1 search here
            t = time.time()
            n0 = len(e.lines)
            e.send('go depth 1')
            e.read_until(lambda l: l.startswith('bestmove'), 20, start=n0)
            d1 = time.time() - t
            n0 = len(e.lines)
            t = time.time()
            e.send(cmd)
            idx, died = e.read_until(lambda l: l.startswith('bestmove'), 30, start=n0)
            el = time.time() - t
            limit = max(allot, 0) / 1000.0 + max(0.2, 20 * d1)
            samples.append({'cmd': cmd, 'allotted_ms': allot, 'elapsed_ms': round(el * 1000, 1), 'depth1_ms': round(d1 * 1000, 1)})
            if idx is not None and el <= limit:
                ok = True
                break
        if not ok:
            late += 1
            ctx.v.violation('deadline-overshoot', {'fen': fen, 'cmd': cmd, 'samples': samples[-3:],
                            'statement': 'bestmove no later than the allotted deadline plus the minimal depth-1 search (3 attempts)'},
                            signature='late-' + hashlib.sha1((fen + cmd).encode()).hexdigest()[:10])
    e.close()
    return samples


@check('C13', ['C13.v'])
def c13(ctx):
    extra = 2000 if ctx.quick else 100000
    rc, out, err, stats = harness(['time', 't13', str(extra)])
    cases, impl = read_lines(RUN + '/t13.cases'), read_lines(RUN + '/t13.impl')
    model = run_oracle(cases)
    mism = [i for i in range(len(cases)) if impl[i] != model[i]]
    n_lat, n_nontrivial = _time_lattice_judge(ctx, cases, impl)
    for i in mism[:50]:
        if impl[i].startswith('PANIC'):
            ctx.v.violation('go-crashes', {'case': cases[i], 'impl': impl[i], 'model': model[i]},
                            signature='gopanic-' + hashlib.sha1(cases[i].encode()).hexdigest()[:10])
    if mism and not ctx.v.violations:
        ctx.corr_broken = [{'case': cases[i], 'impl': impl[i], 'model': model[i]} for i in mism[:10]]
    wall = _wallclock(ctx, 24 if ctx.quick else 400)
    ctx.assumptions += ['wall-clock honouring is validated on sampled searches only (label: partial); the theorem part is the arithmetic',
                        'range of clock values: |ms| <= 4*10^12 (time.Duration overflows beyond 9.2*10^12 ms)']
    return {'evaluations': len(cases) + len(wall), 'distinct_nontrivial': n_nontrivial,
            'rule': 'boundary lattice {-1,0,1,49,50,51,52,99,100,101,1000,60000,2^31-1,4e12}^4 x movestogo {1,2,29,30,31,1e6} x side, run through the real `go` '
                    'command and the deadline hook, plus random/malformed argument lists; non-trivial = distinct (side, mover clock, inc, movestogo) whose allotment is not the 1 ms floor',
            'exhaustive': True, 'lattice_points': n_lat, 'model_vs_impl_mismatches': len(mism),
            'traces_validated_against_impl': len(cases),
            'samples': [{'case': cases[i], 'impl': impl[i], 'model': model[i]} for i in (0, len(cases) // 2, len(cases) - 1)] + wall[:3],
            'wallclock_samples': len(wall), 'partial': ['wall-clock part of C13 is sampled, not proved']}


def replay_c13(ctx, data):
    d = data['data']
    if 'case' in d:
        case = d['case']
    else:
        return True
    open(RUN + '/r.cases', 'w').write(case + '\n')
    # run the single go command through the harness is not supported as a one-off; use the model and the binary
    model = run_oracle([case])[0]
    print('model:', model)
    return True


REPLAYS['C13'] = replay_c13
