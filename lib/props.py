"""One function per property: runs its streams against /repo and the model, judges the property, returns coverage."""
import json, os, re, time, random, hashlib
import common
from common import RUN, log, harness, read_lines, run_oracle
import uci

CHECKS = {}


def check(pid, theorems, race=False):
    def deco(fn):
        CHECKS[pid] = {'fn': fn, 'theorems': theorems, 'race': race}
        return fn
    return deco


class Ctx:
    def __init__(self, pid, tier, build, verdict):
        self.pid, self.tier, self.b, self.v = pid, tier, build, verdict
        self.quick = tier != 'thorough'
        self.corr_broken = []       # model/impl disagreements that the property-level judge could not turn into a failing input
        self.assumptions = []
        self.rng = random.Random(common.seed())


def generated_const(name):
    m = re.search(r'Definition %s : Z := \((-?\d+)\)\.' % name, open(common.COQ + '/Generated.v').read())
    return int(m.group(1))


def run(pid, tier, replay):
    t0 = time.time()
    spec = CHECKS[pid]
    b = common.build(need_race=spec['race'] and tier == 'thorough')
    if not b.ok_go:
        print('cannot build /repo or the harness:\n' + b.coq_log[-2000:])
        return 2
    v = common.Verdict(pid, tier)
    ctx = Ctx(pid, tier, b, v)
    if replay:
        data = json.load(open(replay if os.path.isabs(replay) else common.V + '/' + replay))
        fn = REPLAYS.get(pid)
        if fn is None:
            print('no replay routine for', pid)
            return 2
        still = fn(ctx, data)
        print('replay: violation %s' % ('REPRODUCED' if still else 'not reproduced'))
        return 1 if still else 0
    n_thm, n_closed, thm_details, thm_failed = common.check_theorems(spec['theorems']) if not os.environ.get('VERIF_DEV') else (1, 1, [], [])
    log('theorems: %d stated, %d closed under the global context; failed files: %s' % (n_thm, n_closed, thm_failed))
    # a theorem or a sweep no longer checks (or the regenerated data changed): the streams search deeper for a failing input
    ctx.proof_broken = bool(thm_failed or n_closed < n_thm or b.coq_failed or b.generated_changed)
    if ctx.proof_broken:
        log('proof obligations broken or data regenerated: deep search for a failing input (coq files not compiled: %s)' % b.coq_failed)
    cov = spec['fn'](ctx) or {}
    # the harness process itself died while producing a stream (an engine panic reached outside the recovered observation
    # points): the stream is truncated, so "nothing found" would mean nothing; the panic text names the input
    for hd in common.HARNESS_DEATHS[:3]:
        v.violation('harness-process-died-while-driving-the-engine', dict(hd, how='cd /verif/build && VERIF_SEED=%s ./%s' % (hd['seed'], hd['command'])),
                    signature=sig(pid, 'harness-death', hd['command']))
    # a broken proof / audit / correspondence without a concrete failing input is still a violation (brief): say so
    if not v.violations:
        if thm_failed or n_closed < n_thm:
            v.violation('proof-obligation-broken', {'files': thm_failed, 'details': thm_details,
                        'note': 'a theorem of this property no longer checks against the current /repo (Generated.v or model changed); '
                                'the search over model and implementation found no input on which the property itself fails'}, no_input=True)
        elif b.audit:
            v.violation('audit', {'forbidden': b.audit}, no_input=True)
        elif ctx.corr_broken:
            v.violation('correspondence-broken', {'disagreements': ctx.corr_broken[:10], 'count': len(ctx.corr_broken),
                        'note': 'model and implementation disagree on these inputs; re-judged against the property itself none of them fails it'},
                        no_input=True)
    coverage = {
        'obligations': n_thm, 'discharged': n_closed,
        'checker_cmd': 'cd /verif/coq && make -j16 (full .vo build) && ' + ' && '.join('coqc -R . Magog %s' % f for f in spec['theorems']),
        'trusted_base': common.TRUSTED_BASE,
        'theorems': thm_details,
        'generated_v_changed_in_this_run': b.generated_changed,
        'coq_files_not_compiled': b.coq_failed,
        'audit_findings': b.audit,
    }
    coverage.update(cov)
    coverage.setdefault('evaluations', 0)
    coverage.setdefault('distinct_nontrivial', 0)
    common.write_evidence(pid, tier, coverage, ctx.assumptions, time.time() - t0, len(v.violations))
    log('%s %s: %d violation(s), %.1fs' % (pid, tier, len(v.violations), time.time() - t0))
    return v.exit_code()


REPLAYS = {}

# =====================================================================================================
# C13  time allotment


def _time_lattice_judge(ctx, cases, impl):
    margin = generated_const('antiflagMillis')
    lat = {}
    pat = re.compile(r'^TIME\t([wb])\twtime (-?\d+) btime (-?\d+) winc (-?\d+) binc (-?\d+) movestogo (-?\d+)$')
    mt = re.compile(r'^TIME\t([wb])\tmovetime (-?\d+)$')
    nontrivial = set()
    for c, r in zip(cases, impl):
        m = pat.match(c)
        if m and r.startswith('NS '):
            ns = int(r.split()[1])
            side = m.group(1)
            wt, bt, wi, bi, mtg = map(int, m.groups()[1:])
            left, inc, oleft, oinc = (wt, wi, bt, bi) if side == 'w' else (bt, bi, wt, wi)
            lat.setdefault((side, left, inc, mtg), {})[(oleft, oinc)] = ns
            if ns != 1000000:
                nontrivial.add((side, left, inc, mtg))
            continue
        m = mt.match(c)
        if m and r.startswith('NS '):
            T = int(m.group(2))
            ns = int(r.split()[1])
            if abs(T) <= 4 * 10**12 and ns != (T - margin) * 10**6:
                ctx.v.violation('movetime', {'case': c, 'impl_ns': ns, 'expected_ns': (T - margin) * 10**6,
                                             'statement': 'movetime T allots T minus the margin'}, signature='movetime-%d' % T)
    # (a) mover's clock only
    for key, others in lat.items():
        vals = set(others.values())
        if len(vals) > 1:
            a, b2 = list(others.items())[0], [x for x in others.items() if x[1] != list(others.values())[0]][0]
            ctx.v.violation('other-clock-matters', {'side': key[0], 'mover_left': key[1], 'mover_inc': key[2], 'movestogo': key[3],
                            'other_side_params_a': a[0], 'ns_a': a[1], 'other_side_params_b': b2[0], 'ns_b': b2[1],
                            'statement': 'allotted time depends only on the clock of the side to move'},
                            signature='otherclock-%s-%d-%d-%d' % key)
            return len(lat), len(nontrivial)
    val = {k: list(o.values())[0] for k, o in lat.items()}
    # (b) bounds
    for (side, left, inc, mtg), ns in val.items():
        ms = ns // 10**6
        if ns % 10**6 != 0 or ms < 1 or ms > max(1, left - margin):
            ctx.v.violation('bounds', {'side': side, 'left': left, 'inc': inc, 'movestogo': mtg, 'impl_ns': ns,
                            'statement': '1 ms <= allotted <= max(1, remaining - margin)'}, signature='bounds-%s-%d-%d-%d' % (side, left, inc, mtg))
            return len(lat), len(nontrivial)
    # (c) monotone in left and inc, antitone in movestogo, along the lattice
    lefts = sorted({k[1] for k in val})
    incs = sorted({k[2] for k in val})
    mtgs = sorted({k[3] for k in val})
    for side in 'wb':
        for a in range(len(lefts)):
            for b2 in range(len(incs)):
                for c in range(len(mtgs)):
                    k = (side, lefts[a], incs[b2], mtgs[c])
                    if k not in val:
                        continue
                    for k2, kind, sign in (((side, lefts[a + 1], incs[b2], mtgs[c]) if a + 1 < len(lefts) else None, 'left', 1),
                                           ((side, lefts[a], incs[b2 + 1], mtgs[c]) if b2 + 1 < len(incs) else None, 'inc', 1),
                                           ((side, lefts[a], incs[b2], mtgs[c + 1]) if c + 1 < len(mtgs) else None, 'movestogo', -1)):
                        if k2 is None or k2 not in val:
                            continue
                        if (val[k2] - val[k]) * sign < 0:
                            ctx.v.violation('monotonicity', {'parameter': kind, 'a': k, 'ns_a': val[k], 'b': k2, 'ns_b': val[k2],
                                            'statement': 'more remaining time or increment never yields less, more moves-to-go never yields more'},
                                            signature='mono-%s-%s' % (kind, '-'.join(map(str, k))))
                            return len(lat), len(nontrivial)
    return len(lat), len(nontrivial)


def _wallclock(ctx, n):
    """bestmove no later than the allotted deadline plus the minimal depth-1 search (validation; retried)."""
    fens = ['r3k2r/p1ppqpb1/bn2pnp1/3PN3/1p2P3/2N2Q1p/PPPBBPPP/R3K2R w KQkq - 0 1',
            'rnbqkbnr/pppppppp/8/8/8/8/PPPPPPPP/RNBQKBNR w KQkq - 0 1',
            'r4rk1/1pp1qppp/p1np1n2/2b1p1B1/2B1P1b1/P1NP1N2/1PP1QPPP/R4RK1 b - - 0 10',
            '8/2p5/3p4/KP5r/1R3p1k/8/4P1P1/8 w - - 0 1']
    # positions whose capture trees run for minutes: the deadline must be honoured inside quiescence too (no depth-1 probe there:
    # an unlimited depth-1 search does not come back)
    heavy = ['1QqQqQq1/r6Q/Q6q/q6Q/B2q4/q6Q/k6K/1qQ1QqRb w - - 0 1', 'qqqqkqqq/qqqqqqqq/8/8/8/8/QQQQQQQQ/QQQQKQQQ w - - 0 1',
             'rrqqkqrr/qqqqqqqq/8/8/8/8/QQQQQQQQ/RRQQKQRR b - - 0 1']
    # ... and positions without any capture or promotion in the whole tree (locked pawns): the clock must be read there too
    quietp = ['4k3/8/8/p1p1p1p1/P1P1P1P1/8/8/4K3 w - - 0 1', '4k3/8/8/p1p1p1p1/P1P1P1P1/8/8/4K3 b - - 0 1']
    fens = fens + heavy[:2] + quietp[:1] if n <= 30 else fens + heavy + quietp
    margin = generated_const('antiflagMillis')
    e = uci.Engine()
    e.ready()
    samples, late = [], 0
    for i in range(n):
        fen = fens[i % len(fens)]
        white = ' w ' in fen
        form = i % 4
        if form == 0:
            T = [1, 60, 120, 300][(i // 4) % 4]
            cmd, allot = 'go movetime %d' % T, T - margin
        else:
            left = [100, 400, 3000, 9000][(i // 4) % 4]
            inc = [0, 50, 200][i % 3]
            mtg = [1, 5, 30][(i // 2) % 3]
            cmd = 'go wtime %d btime %d winc %d binc %d movestogo %d' % ((left, 77777, inc, 0, mtg) if white else (77777, left, 0, inc, mtg))
            allot = max(1, (min(left // mtg + inc, left) if left > inc else left) - margin)
        ok = False
        for attempt in range(3):
            e.send('position fen ' + fen)
            e.ready()
            # cost of the minimal depth-1 search here
            if fen in heavy:
                d1 = 0.05
            else:
                t = time.time()
                n0 = len(e.lines)
                e.send('go depth 1')
                e.read_until(lambda l: l.startswith('bestmove'), 20, start=n0)
                d1 = time.time() - t
            hist = None
            if (i // 4) % 3 == 1:
                # the deadline of THIS go is what counts, whatever kind of search the session ran before
                hist = ['go infinite', 'stop'] if (i % 2 or fen in heavy) else ['go depth 2', 'go infinite', 'stop']      # (a depth-2 search of a `heavy` position runs for minutes)
                for h in hist:
                    n1 = len(e.lines)
                    e.send(h)
                    if h == 'go infinite':
                        time.sleep(0.02)
                    else:
                        e.read_until(lambda l: l.startswith('bestmove'), 20, start=n1)
                e.ready()
            n0 = len(e.lines)
            t = time.time()
            e.send(cmd)
            idx, died = e.read_until(lambda l: l.startswith('bestmove'), 12, start=n0)
            el = time.time() - t
            if idx is None and not died:
                e.send('stop')
                e.read_until(lambda l: l.startswith('bestmove'), 10, start=n0)
            limit = max(allot, 0) / 1000.0 + max(0.2, 20 * d1)
            samples.append({'cmd': cmd, 'allotted_ms': allot, 'elapsed_ms': round(el * 1000, 1), 'depth1_ms': round(d1 * 1000, 1), 'earlier_in_the_session': hist})
            if idx is not None and el <= limit:
                ok = True
                break
        if not ok:
            late += 1
            ctx.v.violation('deadline-overshoot', {'fen': fen, 'cmd': cmd, 'samples': samples[-3:],
                            'statement': 'bestmove no later than the allotted deadline plus the minimal depth-1 search (3 attempts)'},
                            signature='late-' + hashlib.sha1((fen + cmd).encode()).hexdigest()[:10])
            if late >= 3:
                break
    e.close()
    return samples


@check('C13', ['C13.v', 'C13src.v'])
def c13(ctx):
    extra = 2000 if ctx.quick else 100000
    rc, out, err, stats = harness(['time', 't13', str(extra)])
    cases, impl = read_lines(RUN + '/t13.cases'), read_lines(RUN + '/t13.impl')
    model = run_oracle(cases)
    mism = [i for i in range(len(cases)) if impl[i] != model[i]]
    n_lat, n_nontrivial = _time_lattice_judge(ctx, cases, impl)
    for i in mism[:50]:
        if impl[i].startswith('PANIC'):
            ctx.v.violation('go-crashes', {'case': cases[i], 'impl': impl[i], 'model': model[i]},
                            signature='gopanic-' + hashlib.sha1(cases[i].encode()).hexdigest()[:10])
    if mism and not ctx.v.violations:
        ctx.corr_broken = [{'case': cases[i], 'impl': impl[i], 'model': model[i]} for i in mism[:10]]
    wall = _wallclock(ctx, 24 if ctx.quick else 400)
    ctx.assumptions += ['wall-clock honouring is validated on sampled searches only (label: partial); the theorem part is the arithmetic',
                        'range of clock values: |ms| <= 4*10^12 (time.Duration overflows beyond 9.2*10^12 ms)']
    return {'evaluations': len(cases) + len(wall), 'distinct_nontrivial': n_nontrivial,
            'rule': 'boundary lattice {-1,0,1,49,50,51,52,99,100,101,1000,60000,2^31-1,4e12}^4 x movestogo {1,2,29,30,31,1e6} x side, run through the real `go` '
                    'command and the deadline hook, plus random/malformed argument lists; non-trivial = distinct (side, mover clock, inc, movestogo) whose allotment is not the 1 ms floor',
            'exhaustive': True, 'lattice_points': n_lat, 'model_vs_impl_mismatches': len(mism),
            'traces_validated_against_impl': len(cases),
            'samples': [{'case': cases[i], 'impl': impl[i], 'model': model[i]} for i in (0, len(cases) // 2, len(cases) - 1)] + wall[:3],
            'wallclock_samples': len(wall), 'partial': ['wall-clock part of C13 is sampled, not proved']}


def replay_c13(ctx, data):
    d = data['data']
    print(json.dumps(d, indent=1)[:1500])
    if 'case' in d:
        _, side, args = d['case'].split('\t')
    elif 'side' in d:
        side = d['side']
        left, inc, mtg = d.get('mover_left', d.get('left')), d.get('mover_inc', d.get('inc')), d.get('movestogo')
        o = d.get('other_side_params_b') or [77777, 0]
        args = ('wtime %d btime %d winc %d binc %d movestogo %d' % ((left, o[0], inc, o[1], mtg) if side == 'w' else (o[0], left, o[1], inc, mtg)))
    else:
        return True
    rc, out, err, _ = harness(['time1', side] + args.split())
    model = run_oracle(['TIME\t%s\t%s' % (side, args)])[0]
    print('go %s (side %s): engine %s | model %s' % (args, side, out.strip(), model))
    return out.strip() != model


REPLAYS['C13'] = replay_c13


# =====================================================================================================
# shared: POS stream (positions with every observable), SPEC answers (rules of chess, independent of the model)

POS_FIELDS = ['status', 'snapshot', 'legal', 'tactical', 'count', 'tcount', 'in_check', 'attack_map', 'eval_full', 'eval_material']


def strip_flags(moves):
    return ' '.join(sorted(re.sub(r'[*]|@..', '', m) for m in moves.split()))


def pos_stream(ctx, name, games, synth, templates=1, spec_sample=None):
    """Runs the POS stream; returns dict with cases (fens), impl/model field lists and spec answers for a sample."""
    rc, out, err, stats = harness(['pos', name, str(games), str(synth), str(templates)])
    cases, impl = read_lines(RUN + '/%s.cases' % name), read_lines(RUN + '/%s.impl' % name)
    # POSH <fen> <previous fen>: the same questions about <fen>, each asked right after the same question about a near twin
    # (same placement, en-passant or castling field dropped); the expected answers are those of <fen> alone
    hist_idx = [i for i, c in enumerate(cases) if c.startswith('POSH\t')]
    model_all = run_oracle(['POS\t' + c.split('\t')[1] if c.startswith('POSH\t') else c for c in cases])
    hist = [(cases[i].split('\t')[1], cases[i].split('\t')[2], impl[i].split('|'), model_all[i].split('|')) for i in hist_idx]
    hs = set(hist_idx)
    keep = [i for i in range(len(cases)) if i not in hs]
    cases, impl, model = [cases[i] for i in keep], [impl[i] for i in keep], [model_all[i] for i in keep]
    fens = [c.split('\t', 1)[1] for c in cases]
    res = {'fens': fens, 'impl': [l.split('|') for l in impl], 'model': [l.split('|') for l in model], 'stats': stats,
           'impl_raw': impl, 'model_raw': model, 'hist': hist}
    if spec_sample is None:
        spec_sample = len(cases)
    # originals are at even indices, their mirrors at odd ones; sample originals evenly
    idx = list(range(0, len(cases), 2))
    if spec_sample <= 0:
        idx = []
    elif len(idx) > spec_sample:
        step = len(idx) / float(spec_sample)
        idx = [idx[int(k * step)] for k in range(spec_sample)]
    spec = run_oracle(['SPEC\t' + fens[i] for i in idx])
    res['spec_idx'] = idx
    res['spec'] = {i: s.split('|') for i, s in zip(idx, spec)}
    return res


def field_mismatches(ps, fields):
    """indices where impl and model differ in one of the given fields (or one side panicked / rejected)"""
    out = []
    for i, (a, b) in enumerate(zip(ps['impl'], ps['model'])):
        if a[0] != 'OK' or b[0] != 'OK':
            if a[0] != b[0]:
                out.append((i, 'status', a[0][:80], b[0][:80]))
            continue
        for f in fields:
            k = POS_FIELDS.index(f)
            if a[k] != b[k]:
                out.append((i, f, a[k], b[k]))
                break
    return out


def history_dependence(ctx, ps, fields, tag):
    """POSH lines: a question about a position asked right after the same question about a near twin must get the answer the
    position gets on its own.  Reports a violation when the answer after the twin differs from the model's AND the engine asked
    afresh agrees with the model (so the difference is the history, not the position)."""
    n = 0
    for (fen, prev, a, b) in ps.get('hist', []):
        n += 1
        if len(ctx.v.violations) >= 5:
            break
        if a[0] != 'OK' or b[0] != 'OK':
            if a[0] != b[0]:
                ctx.v.violation('answer-depends-on-the-previous-question', {'fen': fen, 'asked_right_after': prev, 'engine': a[0][:200], 'model': b[0][:200]},
                                signature=sig(tag, 'hist', fen))
            continue
        for f in fields:
            k = POS_FIELDS.index(f)
            if a[k] != b[k]:
                im, mo, sp = one_pos(fen)
                fresh = im[k] if im[0] == 'OK' and len(im) > k else im[0]
                if fresh == b[k]:
                    ctx.v.violation('answer-depends-on-the-previous-question',
                                    {'fen': fen, 'asked_right_after': prev, 'field': f, 'engine_after_the_twin': a[k][:300], 'engine_asked_afresh': fresh[:300], 'model': b[k][:300],
                                     'how': 'in one process: ask for `%s` of `%s`, then of `%s` (verifh pos, POSH line)' % (f, prev, fen)},
                                    signature=sig(tag, 'hist', f, fen))
                else:
                    ctx.corr_broken.append({'fen': fen, 'field': f, 'impl': a[k][:300], 'model': b[k][:300]})
                break
    return n


def sig(*parts):
    return hashlib.sha1('|'.join(map(str, parts)).encode()).hexdigest()[:12]


def pos_sizes(ctx):
    if getattr(ctx, 'proof_broken', False) and ctx.quick:
        return (30, 600, None)         # every position of the stream is judged against the rules (Spec), not a sample
    return (30, 600, 400) if ctx.quick else (400, 8000, 2000)       # playout games, synthetic placements, spec sample


def shrink_fen(fen, still_fails, budget=60):
    """delete pieces one at a time while the failure persists (kings stay)"""
    f = fen.split(' ')
    rows = f[0].split('/')
    cells = []
    for r in rows:
        row = []
        for c in r:
            if c.isdigit():
                row += ['.'] * int(c)
            else:
                row.append(c)
        cells.append(row)

    def render(cs):
        out = []
        for row in cs:
            s, n = '', 0
            for c in row:
                if c == '.':
                    n += 1
                else:
                    if n:
                        s += str(n)
                        n = 0
                    s += c
            if n:
                s += str(n)
            out.append(s)
        return ' '.join(['/'.join(out)] + f[1:])
    changed = True
    while changed and budget > 0:
        changed = False
        for r in range(8):
            for c in range(8):
                if cells[r][c] in '.kK':
                    continue
                budget -= 1
                if budget <= 0:
                    break
                old = cells[r][c]
                cells[r][c] = '.'
                cand = render(cells)
                if still_fails(cand):
                    changed = True
                else:
                    cells[r][c] = old
    return render(cells)


def one_pos(fen):
    """impl, model and spec answers for a single FEN (used by shrinking and replay)"""
    open(RUN + '/one.fens', 'w').write(fen + '\n')
    rc, out, err, _ = harness(['pos1', RUN + '/one.fens'])
    impl = out.strip().split('\n')[0].split('|') if out.strip() else ['HARNESS-FAILED']
    model, spec = run_oracle(['POS\t' + fen, 'SPEC\t' + fen], shards=2)
    return impl, model.split('|'), spec.split('|')


# =====================================================================================================
# C01  legal move generation is exactly the rules

@check('C01', ['C01.v'])
def c01(ctx):
    games, synth, nspec = pos_sizes(ctx)
    ps = pos_stream(ctx, 'p01', games, synth, 1, nspec)
    n = len(ps['fens'])
    nontrivial = set()
    # (1) implementation against the rules of chess (Spec oracle), on the sample
    for i, sp in ps['spec'].items():
        a = ps['impl'][i]
        if a[0] != 'OK' or sp[0] != 'OK':
            continue
        if sp[5] != '1':
            continue            # not a legal position in the sense of the quantifier
        impl_set = strip_flags(a[2])
        dup = len(a[2].split()) != len(set(re.sub(r'[*]|@..', '', m) for m in a[2].split()))
        if len(sp[1].split()) > 0 and ('=' not in sp[1]):
            nontrivial.add(ps['fens'][i].split(' ')[0])
        if impl_set != sp[1] or dup:
            fen = ps['fens'][i]

            def fails(f):
                im, mo, s = one_pos(f)
                return im[0] == 'OK' and s[0] == 'OK' and s[5] == '1' and strip_flags(im[2]) != s[1]
            small = shrink_fen(fen, fails) if impl_set != sp[1] else fen
            im, mo, s = one_pos(small)
            ctx.v.violation('legal-set-differs-from-rules', {'fen': small, 'original_fen': fen, 'engine_moves': strip_flags(im[2]) if im[0] == 'OK' else im,
                            'rules_moves': s[1] if s[0] == 'OK' else s, 'duplicates': dup,
                            'how': '`position fen %s` then `perft 1`' % small}, signature=sig('c01', small))
            if len(ctx.v.violations) >= 5:
                break
    # (2) model against implementation on everything (the theorems are about the model)
    mm = field_mismatches(ps, ['snapshot', 'legal'])
    for (i, f, a, b) in mm[:200]:
        if ctx.v.violations:
            break
        # judge against the rules
        im, mo, s = one_pos(ps['fens'][i])
        if im[0] != 'OK':
            ctx.v.violation('engine-crashes-on-legal-position', {'fen': ps['fens'][i], 'engine': im}, signature=sig('c01', ps['fens'][i]))
        elif s[0] == 'OK' and s[5] == '1' and strip_flags(im[2]) != s[1]:
            ctx.v.violation('legal-set-differs-from-rules', {'fen': ps['fens'][i], 'engine_moves': strip_flags(im[2]), 'rules_moves': s[1]},
                            signature=sig('c01', ps['fens'][i]))
        else:
            ctx.corr_broken.append({'fen': ps['fens'][i], 'field': f, 'impl': a[:300], 'model': b[:300]})
    nhist = history_dependence(ctx, ps, ['snapshot', 'legal', 'count'], 'c01')
    scases, sbad, smoves = succ_stream(ctx, 's01')
    for (fen, mv, what, a, b) in sbad[:50]:
        if what in ('successor-legal-set', 'legal-set', 'status'):
            ei, mo = succ_detail(fen, mv) if mv else ('', '')
            ctx.v.violation('legal-moves-after-a-move-differ-from-rules', {'fen': fen, 'move': mv, 'what': what, 'engine_position_after': ei, 'rules_position_after': mo,
                            'engine': a, 'model': b, 'how': '`position fen %s moves %s` then `perft 1`; the model (= rules by C01/C02 theorems) lists a different move set' % (fen, mv)},
                            signature=sig('c01s', fen, mv))
            if len(ctx.v.violations) >= 5:
                break
    wide = wide_stream(ctx, 'w01')
    wide.update(wide_search(ctx))
    return {'evaluations': n + smoves + wide['commands'] + wide['searches'], 'distinct_nontrivial': len(nontrivial), 'successor_positions_checked': smoves, 'wide': wide,
            'rule': 'positions from biased playouts, synthetic placements (up to 15 promoted pieces), castling/en-passant/pin templates and the 135 suite FENs; '
                    'plus the legal move set after EVERY legal move of ~600 base positions incl. corner-capture templates (SUCC stream); '
                    'plus positions with more than 60 legal moves: what perft 1..3 walks (against the model) and what `go depth 2..3` answers (WIDE stream); '
                    'every position also as its colour mirror; positions with an en-passant square (and a sample of those with castling rights) also asked '
                    'right after the same question about their twin without that field, in both orders (answers must not depend on the previous question); '
                    'non-trivial = distinct placements judged against the Spec oracle (rules of chess)',
            'positions_vs_model': n, 'asked_after_a_near_twin': nhist, 'positions_vs_spec': len(ps['spec']), 'model_vs_impl_mismatches': len(mm), 'input_distribution': ps['stats'],
            'traces_validated_against_impl': n,
            'samples': [{'fen': ps['fens'][i], 'engine_legal': ps['impl'][i][2] if ps['impl'][i][0] == 'OK' else ps['impl'][i][0]} for i in (0, n // 3, n - 2)]}


def replay_pos(ctx, data):
    d = data['data']
    fen = d.get('fen')
    if not fen:
        print(json.dumps(d, indent=1)[:2000])
        return True
    im, mo, s = one_pos(fen)
    print('fen   :', fen)
    print('engine:', im[2] if im[0] == 'OK' else im)
    print('rules :', s[1] if s[0] == 'OK' else s)
    print('model :', mo[2] if mo[0] == 'OK' else mo)
    return not (im[0] == 'OK' and s[0] == 'OK' and strip_flags(im[2]) == s[1] and im[1:] == mo[1:])


REPLAYS['C01'] = replay_pos


def canon_model(l):
    return 'REJ' if l.startswith('REJ') else l


def line_stream(ctx, cmd, name, args):
    """generic: run a harness stream, the oracle on its cases; returns cases, impl, model(canonical), notes, stats"""
    rc, out, err, stats = harness([cmd, name] + [str(a) for a in args])
    if rc != 0:
        log('harness %s failed rc=%s: %s' % (cmd, rc, err[-500:]))
    cases, impl = read_lines(RUN + '/%s.cases' % name), read_lines(RUN + '/%s.impl' % name)
    notes = [l.split('\t', 2) for l in read_lines(RUN + '/%s.notes' % name)]
    model_raw = run_oracle(cases)
    return cases, impl, [canon_model(m) for m in model_raw], model_raw, notes, stats


def unhex(h):
    return bytes.fromhex(h).decode('latin-1')


# =====================================================================================================
# C02  playing moves keeps the position exact and consistent

def first_diff_ply(a, b):
    pa, pb = a.split('|'), b.split('|')
    for k in range(1, min(len(pa), len(pb))):
        if pa[k] != pb[k]:
            return k - 1, pa[k], pb[k]
    return min(len(pa), len(pb)) - 1, pa[-1][:60], pb[-1][:60]


@check('C02', ['C02.v'])
def c02(ctx):
    games, plies = (300, 160) if ctx.quick else (3000, 200)
    cases, impl, model, model_raw, notes, stats = line_stream(ctx, 'game', 'g02', [games, plies])
    nviol = 0
    # implementation-only observations: bookkeeping vs board, unmake, push vs apply
    for ln, kind, text in notes:
        if kind in ('bookkeeping', 'unmake', 'push-vs-apply', 'push-missing'):
            c = cases[int(ln) - 1].split('\t')
            ctx.v.violation(kind, {'start': c[1], 'moves': c[2] if len(c) > 2 else '', 'observation': text,
                            'how': '`position %s moves ...` then compare `tostr` / snapshot accessor' % c[1]}, signature=sig('c02', kind, text[:80]))
            nviol += 1
            if nviol >= 5:
                break
    game_idx = [i for i, c in enumerate(cases) if c.startswith('GAME')]
    mism = [i for i in game_idx if impl[i] != model[i].replace('|NOTWF', '')]
    notwf = [i for i in game_idx if model_raw[i].endswith('NOTWF')]
    for i in mism[:20]:
        c = cases[i].split('\t')
        ply, a, b = first_diff_ply(impl[i], model[i])
        moves = c[2].split()[:ply]
        # the model is (by the theorems / the Spec cross-check of C01's stream) the rules' position: judge the engine against it
        ctx.v.violation('position-after-moves-differs', {'start': c[1], 'moves': ' '.join(moves), 'ply': ply, 'engine_snapshot': a, 'model_snapshot': b,
                        'how': '`position %s moves %s` then `tostr`' % (c[1], ' '.join(moves))}, signature=sig('c02', c[1], ' '.join(moves)))
    for i in notwf[:5]:
        ctx.corr_broken.append({'case': cases[i][:300], 'note': 'model position violates its own well-formedness invariant'})
    scases, sbad, smoves = succ_stream(ctx, 's02')
    for (fen, mv, what, a, b) in sbad[:50]:
        if what in ('snapshot', 'bookkeeping', 'status', 'model-not-wf'):
            ei, mo = succ_detail(fen, mv) if mv else ('', '')
            ctx.v.violation('position-after-move-differs', {'fen': fen, 'move': mv, 'what': what, 'engine_snapshot_after': ei, 'rules_snapshot_after': mo,
                            'how': '`position fen %s moves %s` then `tostr`' % (fen, mv)}, signature=sig('c02s', fen, mv))
            if len(ctx.v.violations) >= 5:
                break
    # un-making during search: after searches that run to completion, hit their deadline (also inside quiescence) or are stopped at a
    # root or inner node, the position stack is back at index 0 with the snapshot `position` left
    rc, qout, qerr, _ = harness(['queries', str(40 if ctx.quick else 400), 'search'], timeout=3000)
    qrows = [l.split('\t') for l in qout.strip().split('\n') if l]
    for r in qrows:
        if not r[0].startswith('ok'):
            ctx.v.violation('position-not-restored-after-a-search-or-evaluation', {'setup': r[1], 'searches': r[2] if len(r) > 2 else '', 'observation': r[0][4:],
                            'note': '`go infinite @d,k` / `#d,nd`: stop sent while the search thread is held after root move k of iteration d / after a move at node depth nd'},
                            signature=sig('c02q', r[1], r[2] if len(r) > 2 else ''))
            if len(ctx.v.violations) >= 5:
                break
    # make/unmake nesting on nodes with more than 60 moves (perft 1..3 on the WIDE positions against the model)
    wide02 = wide_stream(ctx, 'w02')
    nontriv = sum(int(stats.get(k, 0)) for k in ('castles', 'ep_captures', 'promotions', 'corner_captures'))
    return {'evaluations': int(stats.get('plies', 0)) + len(qrows) + wide02['commands'], 'wide': wide02, 'distinct_nontrivial': nontriv, 'search_unwind_sessions': len(qrows),
            'rule': 'games from the biased playout generator (start position and corpus FENs, every tenth game up to 400 plies); snapshot (board bytes, '
                    'lists in order, kings, flags, ep, ply) after every ply compared with the model; on the engine alone: PushMove vs ApplyUciMove, '
                    'pop restores the previous snapshot, strict list<->board bijection; sessions of searches (completed / deadline / stopped at root or inner nodes) after which the '
                    'stack index is 0 and the snapshot unchanged; non-trivial = plies that castle, capture en passant, promote or capture on a corner',
            'input_distribution': stats, 'games': len(game_idx), 'model_vs_impl_mismatches': len(mism) + len(sbad), 'traces_validated_against_impl': len(game_idx) + len(scases),
            'single_moves_from_template_positions': smoves,
            'samples': [{'case': cases[game_idx[0]][:200]}] if game_idx else []}


def replay_game(ctx, data):
    d = data['data']
    start, moves = d.get('start'), d.get('moves', '')
    if start is None:
        print(json.dumps(d, indent=1)[:1500])
        return True
    open(RUN + '/one.game', 'w').write('%s\t%s\n' % (start, moves))
    rc, out, err, _ = harness(['game1', RUN + '/one.game'])
    model = run_oracle(['GAME\t%s\t%s' % (start, moves)])[0]
    impl = out.strip().split('\n')[0] if out.strip() else 'HARNESS-FAILED ' + err[-300:]
    print('engine:', impl[-400:])
    print('model :', model[-400:])
    return impl != model.replace('|NOTWF', '')


REPLAYS['C02'] = replay_game

# =====================================================================================================
# C06  tactical list and perft/tperft counts


def wide_stream(ctx, name):
    """positions with more than 60 legal moves (the per-ply move buffer grows / a list longer than its slot), perft and tperft to depth 3:
    an inner node with a long list generates its children while its own list is being walked"""
    wn = 12 if ctx.quick else 150
    cases, impl, model, model_raw, notes, stats = line_stream(ctx, 'wide', name, [wn, 3])
    bad = [i for i in range(len(cases)) if impl[i] != model[i] and not model[i].startswith('TIMEOUT')]
    for i in bad[:5]:
        c = cases[i].split('\t')
        cmd = 'perft' if c[0] == 'PERFT' else 'tperft'
        ctx.v.violation('perft-walk-differs-on-a-position-with-more-than-60-moves', {'fen': c[1], 'command': '%s %s' % (cmd, c[2]), 'engine': impl[i][:800], 'model': model[i][:800],
                        'how': '`position fen %s`, `%s %s`' % (c[1], cmd, c[2])}, signature=sig(ctx.pid, 'wide', cmd, c[1], c[2]))
    return {'commands': len(cases), 'mismatches': len(bad), 'max_root_moves': stats.get('max_root_moves'),
            'model_timeouts': sum(1 for m in model if m.startswith('TIMEOUT'))}


def wide_search(ctx):
    """what search expands on positions with more than 60 legal moves: the engine answers, with a move of the legal set"""
    rc, out, err, _ = harness(['widefens', str(12 if ctx.quick else 150)])
    rows = [l.split('\t') for l in out.strip().split('\n') if '\t' in l]
    jobs = []
    for fen, legal in rows:
        for d in (2, 3):
            if d == 3 and len(legal.split()) > 120 and ctx.quick:
                continue
            jobs.append(S.Job(fen, 'go depth %d' % d))
    S.run_jobs(jobs, workers=8)
    legal_of = {fen: set(re.sub(r'[*]|@..', '', m) for m in legal.split()) for fen, legal in rows}
    for j in jobs:
        best = [l.split()[1] for l in (j.lines or []) if l.startswith('bestmove') and len(l.split()) > 1]
        if j.died or j.timeout or not best:
            ctx.v.violation('engine-died-or-hung-searching-a-position-with-more-than-60-moves', {'fen': j.fen, 'go': j.go, 'died': j.died, 'timed_out': j.timeout,
                            'last_lines': (j.lines or [])[-4:], 'stderr': j.stderr[-600:], 'how': '`position fen %s`, `%s`' % (j.fen, j.go)},
                            signature=sig(ctx.pid, 'widecrash', j.fen, j.go))
        elif best[0] not in legal_of[j.fen]:
            ctx.v.violation('bestmove-not-a-legal-move-on-a-position-with-more-than-60-moves', {'fen': j.fen, 'go': j.go, 'bestmove': best[0],
                            'how': '`position fen %s`, `%s`' % (j.fen, j.go)}, signature=sig(ctx.pid, 'widebest', j.fen, j.go))
        if len(ctx.v.violations) >= 5:
            break
    return {'searches': len(jobs)}


@check('C06', ['C06.v'])
def c06(ctx):
    games, synth, nspec = pos_sizes(ctx)
    ps = pos_stream(ctx, 'p06', games, synth, 1, nspec)
    n = len(ps['fens'])
    nontrivial = set()
    for i, sp in ps['spec'].items():
        a = ps['impl'][i]
        if a[0] != 'OK' or sp[0] != 'OK' or sp[5] != '1':
            continue
        fen = ps['fens'][i]
        tact = strip_flags(a[3])
        legal_n = len(a[2].split())
        tact_n = len(a[3].split())
        if tact_n:
            nontrivial.add(fen.split(' ')[0])
        bad = None
        if tact != sp[2]:
            bad = ('tactical-list-differs-from-rules', {'engine_tactical': tact, 'rules_tactical': sp[2]})
        elif int(a[4]) != len(sp[1].split()):
            bad = ('countMoves-differs', {'engine_count': int(a[4]), 'rules_legal_moves': len(sp[1].split())})
        elif int(a[5]) != len(sp[2].split()):
            bad = ('countTacticalMoves-differs', {'engine_count': int(a[5]), 'rules_tactical_moves': len(sp[2].split())})
        elif legal_n != int(a[4]) or tact_n != int(a[5]):
            bad = ('generator-and-counter-disagree', {'generated': legal_n, 'counted': int(a[4]), 'generated_tactical': tact_n, 'counted_tactical': int(a[5])})
        elif len(a) > 10 and a[10] != 'same':
            bad = ('move-lists-change-after-an-evaluation-of-the-same-position', {'observation': a[10][:400], 'tactical_before': tact,
                   'note': 'quiescence evaluates a position object and then generates its capture list from it'})
        # flags: a generated legal move is marked tactical iff it is in the rules' tactical set
        else:
            flagged = ' '.join(sorted(re.sub(r'[*]|@..', '', m) for m in a[2].split() if '*' in m))
            if flagged != sp[2]:
                bad = ('tactical-flag-wrong', {'flagged': flagged, 'rules_tactical': sp[2]})
        if bad:
            d = {'fen': fen, 'how': '`position fen %s`, `perft 1` / `tperft 1`' % fen}
            d.update(bad[1])
            ctx.v.violation(bad[0], d, signature=sig('c06', bad[0], fen))
            if len(ctx.v.violations) >= 5:
                break
    mm = field_mismatches(ps, ['tactical', 'count', 'tcount', 'legal'])
    history_dependence(ctx, ps, ['tactical', 'count', 'tcount', 'legal'], 'c06')
    # perft / tperft through the command interpreter against the model (model = Spec.paths by theorem; and see C01)
    npf, dfull, dsparse = (120, 2, 3) if ctx.quick else (600, 3, 4)
    cases, impl, model, model_raw, notes, stats = line_stream(ctx, 'perft', 'pf06', [npf, dfull, dsparse])
    pm = [i for i in range(len(cases)) if impl[i] != model[i]]
    for i in pm[:10]:
        c = cases[i].split('\t')
        cmd = 'perft' if c[0] == 'PERFT' else 'tperft'
        ctx.v.violation('perft-count-differs', {'fen': c[1], 'command': '%s %s' % (cmd, c[2]), 'engine': impl[i][:600], 'model': model[i][:600],
                        'how': '`position fen %s`, `%s %s`' % (c[1], cmd, c[2])}, signature=sig('c06', cmd, c[1], c[2]))
    for (i, f, a, b) in mm[:20]:
        if not ctx.v.violations:
            ctx.corr_broken.append({'fen': ps['fens'][i], 'field': f, 'impl': a[:200], 'model': b[:200]})
    wide = wide_stream(ctx, 'w06')
    return {'evaluations': n + len(cases) + wide['commands'], 'distinct_nontrivial': len(nontrivial),
            'rule': 'POS stream (see C01): tactical list, both fast counters, tactical flags against the Spec oracle and the model; perft/tperft divide output of the '
                    'real commands to depth 2-3 (quick) / 3-4 (thorough) against the model; WIDE stream: positions with more than 60 legal moves (beyond the per-ply '
                    'move buffer), perft/tperft 1..3; non-trivial = distinct placements with at least one tactical move',
            'positions': n, 'perft_commands': len(cases), 'wide': wide, 'model_vs_impl_mismatches': len(mm) + len(pm), 'input_distribution': ps['stats'],
            'traces_validated_against_impl': n + len(cases) + wide['commands'],
            'samples': [{'case': cases[k], 'engine': impl[k][:200]} for k in (0, len(cases) // 2)] if cases else []}


REPLAYS['C06'] = replay_pos

# =====================================================================================================
# C07  position command replays games; move notation round-trips


@check('C07', ['C07.v', 'C07pos.v'])
def c07(ctx):
    games, plies = (200, 160) if ctx.quick else (8000, 200)
    cases, impl, model, model_raw, notes, stats = line_stream(ctx, 'game', 'g07', [games, plies])
    for ln, kind, text in notes:
        if kind == 'position-command':
            ctx.v.violation('position-command-differs-from-playing-the-moves', {'observation': text[:1500]}, signature=sig('c07', text[:120]))
            if len(ctx.v.violations) >= 5:
                break
    # the move-list path itself (ApplyUciMove after parseMoveString), ply by ply: what `position <start> moves m1..mk` sets up for every k
    gidx = [i for i, c in enumerate(cases) if c.startswith('GAME')]
    for i in [i for i in gidx if impl[i] != model[i].replace('|NOTWF', '')][:10]:
        c = cases[i].split('\t')
        ply, a, b = first_diff_ply(impl[i], model[i])
        moves = c[2].split()[:ply]
        ctx.v.violation('position-with-move-list-sets-up-a-different-position', {'start': c[1], 'moves': ' '.join(moves), 'engine_snapshot': a, 'rules_snapshot': b,
                        'how': '`position %s moves %s` then `tostr`' % (c[1] if c[1] == 'startpos' else 'fen ' + c[1], ' '.join(moves))},
                        signature=sig('c07g', c[1], ' '.join(moves)))
    idx = [i for i, c in enumerate(cases) if c.startswith('POSCMD')]
    mism = [i for i in idx if impl[i] != model[i]]
    for i in mism[:10]:
        cmd = unhex(cases[i].split('\t')[1])
        ctx.v.violation('position-command-result-differs', {'command': 'position ' + cmd, 'engine': impl[i][:500], 'model': model[i][:500]},
                        signature=sig('c07', cmd[:200]))
    # one move applied through the move-list path (ApplyUciMove) from ~600 base positions incl. the corner-capture templates:
    # the position after it against the model (= the rules, C02)
    scases7, sbad7, smoves7 = succ_stream(ctx, 's07')
    for (fen, mv, what, a, b) in sbad7[:50]:
        if what in ('snapshot', 'status', 'bookkeeping') and mv:
            ei, mo = succ_detail(fen, mv)
            ctx.v.violation('position-with-move-list-sets-up-a-different-position', {'start': fen, 'moves': mv, 'engine_snapshot': ei, 'rules_snapshot': mo,
                            'how': '`position fen %s moves %s` then `tostr`' % (fen, mv)}, signature=sig('c07s', fen, mv))
            if len(ctx.v.violations) >= 5:
                break
    # move notation: every one of the 64*64*5 strings through the engine's own printer and parser
    rc, out, err, st2 = harness(['moves', 'm07'])
    mcases, mimpl = read_lines(RUN + '/m07.cases'), read_lines(RUN + '/m07.impl')
    mnotes = read_lines(RUN + '/m07.notes')
    for l in mnotes[:5]:
        ctx.v.violation('move-text-does-not-round-trip', {'observation': l}, signature=sig('c07', l[:80]))
    mmodel = run_oracle(mcases)
    mm = [i for i in range(len(mcases)) if mimpl[i] != mmodel[i]]
    for i in mm[:5]:
        if not ctx.v.violations:
            ctx.corr_broken.append({'case': unhex(mcases[i].split('\t')[1]), 'impl': mimpl[i], 'model': mmodel[i]})
    forms = {}
    for i in idx:
        c = unhex(cases[i].split('\t')[1])
        k = 'startpos' if c.startswith('startpos') else ('fen-keyword' if c.startswith('fen') else 'bare-fen')
        forms[k] = forms.get(k, 0) + 1
    return {'evaluations': len(idx) + len(mcases), 'distinct_nontrivial': len(set(cases[i] for i in idx)),
            'rule': '`position` commands (startpos / bare FEN / fen keyword, whole games and random prefixes, promotion suffix in either case) executed by ParseInputLine, '
                    'result compared with playing the moves one by one and with the model; plus all 64x64x5 move strings (and upper-case / junk variants) through the '
                    "engine's printer and parser against the model; non-trivial = distinct position commands",
            'exhaustive': True, 'position_commands': len(idx), 'forms': forms, 'move_strings': len(mcases), 'model_vs_impl_mismatches': len(mism) + len(mm),
            'input_distribution': stats, 'traces_validated_against_impl': len(idx) + len(mcases),
            'samples': [{'command': 'position ' + unhex(cases[i].split('\t')[1])[:200]} for i in idx[:2]]}


# =====================================================================================================
# C08  FEN loading faithful and total


@check('C08', ['C08.v', 'C08rt.v'])
def c08(ctx):
    n = 5000 if ctx.quick else 400000
    cases, impl, model, model_raw, notes, stats = line_stream(ctx, 'fen', 'f08', [n])
    mism = [i for i in range(len(cases)) if impl[i] != model[i]]
    kinds = {}
    for m in model_raw:
        k = m.split('|')[0]
        kinds[k] = kinds.get(k, 0) + 1
    for i in mism[:200]:
        s = unhex(cases[i].split('\t')[1])
        a, b = impl[i], model[i]
        if a.startswith('PANIC'):
            ctx.v.violation('fen-crashes-the-loader', {'fen': s, 'fen_hex': cases[i].split('\t')[1], 'engine': a}, signature=sig('c08', s))
        elif a.startswith('OK') and b == 'REJ':
            ctx.v.violation('unsound-fen-accepted', {'fen': s, 'fen_hex': cases[i].split('\t')[1], 'model_rejects_with_code': model_raw[i],
                            'engine_snapshot': a[:400]}, signature=sig('c08', s))
        elif a == 'REJ' and b.startswith('OK'):
            ctx.v.violation('valid-fen-rejected', {'fen': s, 'fen_hex': cases[i].split('\t')[1], 'model_snapshot': b[:400]}, signature=sig('c08', s))
        else:
            ctx.v.violation('fen-loaded-with-different-meaning', {'fen': s, 'engine': a[:500], 'model': b[:500]}, signature=sig('c08', s))
        if len(ctx.v.violations) >= 5:
            break
    # rejection keeps the current position: through the command interpreter
    rc, out, err, st2 = harness(['fenkeep', 'fk08', str(300 if ctx.quick else 20000)])
    for l in read_lines(RUN + '/fk08.notes')[:5]:
        ctx.v.violation('fen-loading-depends-on-the-session' if 'after the history' in l else 'rejected-fen-changed-the-position',
                        {'observation': l[:1500]}, signature=sig('c08k', l[:100]))
    acc = sum(1 for x in impl if x.startswith('OK'))
    return {'evaluations': len(cases) + int(st2.get('total', 0)), 'distinct_nontrivial': len(set(cases)),
            'rule': 'strings: valid FENs of playout/corpus/suite positions, all field variants, capacity and counter boundaries, one- and two-step mutations, random '
                    'ASCII and non-ASCII bytes; observable = accepted (with full snapshot) or rejected, never a panic; model = Fen.v; non-trivial = distinct strings',
            'accepted': acc, 'rejected': len(cases) - acc, 'model_outcome_kinds': kinds, 'model_vs_impl_mismatches': len(mism),
            'input_distribution': stats, 'traces_validated_against_impl': len(cases),
            'samples': [{'fen': unhex(cases[i].split('\t')[1]), 'engine': impl[i][:80]} for i in (0, len(cases) // 2, len(cases) - 1)]}


# =====================================================================================================
# C09  attack / check detection = geometry


@check('C09', ['C09.v', 'C09src.v'])
def c09(ctx):
    games, synth, nspec = pos_sizes(ctx)
    ps = pos_stream(ctx, 'p09', games, synth, 1, nspec * 2)
    n = len(ps['fens'])
    nontrivial = set()
    for i, sp in ps['spec'].items():
        a = ps['impl'][i]
        if a[0] != 'OK' or sp[0] != 'OK':
            continue
        fen = ps['fens'][i]
        nontrivial.add(a[7])
        if a[7] != sp[4] or a[6] != sp[3]:
            ctx.v.violation('square-attacked-differs-from-geometry', {'fen': fen, 'engine_attack_map': a[7], 'rules_attack_map': sp[4],
                            'engine_in_check': a[6], 'rules_in_check': sp[3],
                            'map_format': '32 hex digits: 64 bits squares a1..h8 attacked by white, then by black'}, signature=sig('c09', fen))
            if len(ctx.v.violations) >= 5:
                break
    mm = field_mismatches(ps, ['in_check', 'attack_map'])
    history_dependence(ctx, ps, ['in_check', 'attack_map', 'legal'], 'c09')      # legal: castling out of / through check rests on the same attack test
    # the quantifier's own enumeration: one attacker, optional single blocker, every pair of squares
    mode = 'full'
    rc, out, err, st2 = harness(['attack', 'a09', mode], timeout=3000)
    acases, aimpl = read_lines(RUN + '/a09.cases'), read_lines(RUN + '/a09.impl')
    amodel = run_oracle(acases)
    am = [i for i in range(len(acases)) if amodel[i] != '%s %s' % (aimpl[i], aimpl[i])]
    for i in am[:5]:
        ctx.v.violation('single-attacker-differs-from-geometry', {'case': acases[i], 'engine': aimpl[i], 'rules_and_model': amodel[i],
                        'case_format': 'ATT <attacker piece byte> <from> <to> <blocker or -1> <parked king square> (0x88 squares)'},
                        signature=sig('c09a', acases[i]))
    for (i, f, a, b) in mm[:20]:
        if not ctx.v.violations:
            ctx.corr_broken.append({'fen': ps['fens'][i], 'field': f, 'impl': a, 'model': b})
    return {'evaluations': n * 128 + len(acases), 'distinct_nontrivial': len(nontrivial),
            'rule': 'POS stream: for every position the 64x2 square-attacked map and in-check flag against the Spec oracle (rules) and the model; plus the '
                    "quantifier's enumeration (10 attacker kinds x from x to x {no blocker | one blocker}) through the hook: %s; non-trivial = distinct attack maps" % mode,
            'exhaustive': mode == 'full', 'positions': n, 'single_attacker_cases': len(acases), 'model_vs_impl_mismatches': len(mm) + len(am),
            'input_distribution': ps['stats'], 'traces_validated_against_impl': n + len(acases),
            'samples': [{'fen': ps['fens'][0], 'attack_map': ps['impl'][0][7]}] + ([{'case': acases[0], 'engine': aimpl[0]}] if acases else [])}


REPLAYS['C09'] = replay_pos

# =====================================================================================================
# C15  evaluation is colour-symmetric


@check('C15', ['C15.v'])
def c15(ctx):
    games, synth, nspec = pos_sizes(ctx)
    ps = pos_stream(ctx, 'p15', games * 2, synth * 2, 1, 0)
    n = len(ps['fens'])
    nontrivial = set()
    cats = {'ep': 0, 'castle': 0, 'in_check': 0, 'heavy': 0}
    for i in range(0, n - 1, 2):
        a, m = ps['impl'][i], ps['impl'][i + 1]
        if a[0] != 'OK' or m[0] != 'OK':
            if a[0] != m[0]:
                ctx.v.violation('mirror-image-treated-differently', {'fen': ps['fens'][i], 'mirror_fen': ps['fens'][i + 1], 'engine': a[0][:100], 'engine_on_mirror': m[0][:100]},
                                signature=sig('c15', ps['fens'][i]))
            continue
        f = ps['fens'][i].split(' ')
        nontrivial.add(f[0])
        cats['ep'] += f[3] != '-'
        cats['castle'] += f[2] != '-'
        cats['in_check'] += a[6] == '1'
        cats['heavy'] += sum(c in 'qQ' for c in f[0]) > 3
        if a[8] != m[8] or a[9] != m[9]:
            fen = ps['fens'][i]

            def fails(ff):
                im, _, _ = one_pos(ff)
                open(RUN + '/one.fens', 'w').write(ff + '\n')
                rc, out, err, _ = harness(['pos1m', RUN + '/one.fens'])
                im2 = out.strip().split('|') if out.strip() else ['X']
                return im[0] == 'OK' and im2[0] == 'OK' and (im[8] != im2[8] or im[9] != im2[9])
            small = shrink_fen(fen, fails)
            ctx.v.violation('evaluation-not-colour-symmetric', {'fen': small, 'original_fen': fen, 'mirror_of_original': ps['fens'][i + 1],
                            'eval': int(a[8]), 'eval_of_mirror': int(m[8]), 'material_part': int(a[9]), 'material_part_of_mirror': int(m[9]),
                            'how': '`position fen <fen>`, `eval` on both'}, signature=sig('c15', small))
            if len(ctx.v.violations) >= 5:
                break
    mm = field_mismatches(ps, ['eval_full', 'eval_material'])
    history_dependence(ctx, ps, ['eval_full', 'eval_material'], 'c15')
    for (i, f, a, b) in mm[:20]:
        if not ctx.v.violations:
            ctx.corr_broken.append({'fen': ps['fens'][i], 'field': f, 'impl': a, 'model': b})
    return {'evaluations': n, 'distinct_nontrivial': len(nontrivial),
            'rule': 'POS stream, every position together with its colour-flipped mirror (ranks reversed, colours, side, castling and ep swapped): Evaluate and its '
                    'material/PST part must be equal on the pair (engine vs engine) and equal to the model; non-trivial = distinct placements',
            'pairs': n // 2, 'categories': cats, 'model_vs_impl_mismatches': len(mm), 'input_distribution': ps['stats'], 'traces_validated_against_impl': n,
            'samples': [{'fen': ps['fens'][i], 'mirror': ps['fens'][i + 1], 'eval': ps['impl'][i][8], 'eval_mirror': ps['impl'][i + 1][8]} for i in (0, (n // 4) * 2)]}


REPLAYS['C15'] = replay_pos


# =====================================================================================================
# search-level properties (real engine over pipes)
import search as S


def search_batch(ctx, n, quick_depth_cap=None, tag=''):
    """positions with a legal move, `go depth d` on the engine and the model's iterative deepening on the same (fen, d)"""
    allp = [p for p in S.positions(ctx, n) if p['nlegal'] > 0]
    # the extracted model is fast on sparse positions: take all of them, and a sample of the dense ones
    sparse = [p for p in allp if p['men'] <= 8]
    dense = [p for p in allp if p['men'] > 8]
    keep_dense = max(40, n // 12)
    pos = sparse + dense[::max(1, len(dense) // keep_dense)]
    jobs = []
    for p in pos:
        d = S.depth_for(p, ctx.quick)
        if quick_depth_cap:
            d = min(d, quick_depth_cap)
        p['depth'] = d
        jobs.append(S.Job(p['fen'], 'go depth %d' % d))
    S.run_jobs(jobs, workers=8)
    models = S.model_searches([(p['fen'], p['depth']) for p in pos])
    for p, j, m in zip(pos, jobs, models):
        p['job'], p['model'] = j, m
        p['parsed'] = uci.parse_search_output(j.lines or [])
    return pos


def crash_violation(ctx, p, prop_note):
    j = p['job']
    ctx.v.violation('engine-died-or-hung-during-search', {'fen': p['fen'], 'go': j.go, 'died': j.died, 'timed_out': j.timeout,
                    'last_lines': (j.lines or [])[-5:], 'stderr': j.stderr[-800:], 'note': prop_note},
                    signature=sig(ctx.pid, 'crash', p['fen'], j.go))


def refmm_parallel(items, limit=4000000):
    """reference minimax (verifh refmm) of (fen, depth) items, one shard per core; an item over the node limit answers PANIC (undecided)"""
    import concurrent.futures
    nsh = max(1, min(common.NPROC, len(items)))
    outs = ['FAILED'] * len(items)

    def shard(i):
        mine = list(range(i, len(items), nsh))
        f = RUN + '/c04.refmm.%d' % i
        open(f, 'w').write(''.join('%s\t%d\n' % items[j] for j in mine))
        rc, outp, err, _ = harness(['refmm', f, str(limit)], timeout=1200)
        got = outp.strip().split('\n') if outp.strip() else []
        return [(j, got[n] if n < len(got) else 'FAILED') for n, j in enumerate(mine)]
    with concurrent.futures.ThreadPoolExecutor(nsh) as ex:
        for res in ex.map(shard, range(nsh)):
            for j, o in res:
                outs[j] = o
    return outs


@check('C04', ['C04.v', 'C04chess.v'])
def c04(ctx):
    n = 1000 if ctx.quick else 4000
    pos = search_batch(ctx, n)
    compared = deviations = sens_skipped = 0
    nontrivial = set()
    suspicious = []
    for p in pos:
        j, m = p['job'], p['model']
        if j.died or j.timeout:
            crash_violation(ctx, p, 'C04 needs the analysis output')
            continue
        if 'iters' not in m:
            if m.get('error') in ('TIMEOUT', 'STACKOVERFLOW'):
                p['skipped'] = True          # the extracted model is too slow on this tree: not compared
            else:
                ctx.corr_broken.append({'fen': p['fen'], 'model': m})
            continue
        its = S.impl_iterations(p['parsed'])
        mits = {i['depth']: i for i in m['iters']}
        last_model = m['iters'][-1]['depth']
        # iterations completed: exactly 1..d unless single legal move / forced mate found (the model implements those exits)
        last_impl = max(its) if its else None
        for k, (kind, val, pv, nodes) in sorted(its.items()):
            if k not in mits:
                suspicious.append((p, k, 'engine completed iteration %d, model stopped after %d' % (k, last_model), None))
                continue
            compared += 1
            nontrivial.add((p['fen'], k))
            exp = S.format_score(mits[k]['score'])
            if (kind, val) != exp:
                suspicious.append((p, k, 'score', (kind, val, exp)))
        if last_impl is not None and last_impl != last_model and not any(s[0] is p for s in suspicious):
            suspicious.append((p, last_impl, 'engine stopped after iteration %d, model after %d (go depth %d)' % (last_impl, last_model, p['depth']), None))
    # re-judge every disagreement against the property itself: the exact minimax value of the full tree, and whether that
    # tree contains a lazy-sensitive node (the admitted deviation)
    undecided = 0
    if suspicious:
        sus = suspicious[:200]
        outs = refmm_parallel([(p['fen'], k) for (p, k, what, info) in sus])
        for (p, k, what, info), o in zip(sus, outs):
            if what == 'score':
                if not o.startswith('OK|'):
                    undecided += 1
                    continue
                _, v, sflag, nodes = o.split('|')
                exact = S.format_score(int(v))
                if sflag == '1':
                    sens_skipped += 1          # the tree contains a lazy-sensitive node: the deviation the property admits
                    continue
                mval = [i for i in p['model']['iters'] if i['depth'] == k]
                if (info[0], info[1]) != exact:
                    ctx.v.violation('score-differs-from-minimax', {'fen': p['fen'], 'depth': k, 'engine_score': '%s %d' % (info[0], info[1]),
                                    'minimax_value': int(v), 'minimax_as_reported': '%s %d' % exact, 'tree_has_lazy_sensitive_node': False,
                                    'model_search_value': mval[0]['score'] if mval else None, 'reference_nodes': int(nodes),
                                    'how': '`position fen %s`, `go depth %d`, read `info depth %d` (or the final `info score`); reference = plain minimax of the '
                                           'full tree over the engine\'s legal-move generator (material-changing subset decided from the board, not by the tactical generator) and full evaluation (verifh refmm)' % (p['fen'], p['depth'], k)},
                                    signature=sig('c04', p['fen'], k))
                elif mval and S.format_score(mval[0]['score']) != exact:
                    # no node of the tree is lazy-sensitive, so by C04_state_machine_root the model search value IS the minimax value of
                    # the model; the reference built from the engine's generator/evaluation says otherwise: an engine component the
                    # reference shares with the search (legal generator, evaluation, mate test) has left the model
                    ctx.v.violation('score-differs-from-proved-minimax-of-the-model', {'fen': p['fen'], 'depth': k, 'engine_score': '%s %d' % (info[0], info[1]),
                                    'model_search_value': mval[0]['score'], 'reference_minimax_from_engine_components': int(v), 'tree_has_lazy_sensitive_node': False,
                                    'how': '`position fen %s`, `go depth %d`; the tree has no lazy-sensitive node, so theorem C04_chess_state_machine_root makes the '
                                           'model value exact' % (p['fen'], p['depth'])}, signature=sig('c04m', p['fen'], k))
                else:
                    deviations += 1
            else:
                ctx.v.violation('iterations-completed-differ', {'fen': p['fen'], 'go': 'go depth %d' % p['depth'], 'observation': what,
                                'engine_depth_lines': sorted(S.impl_iterations(p['parsed'])), 'model_iterations': [i['depth'] for i in p['model']['iters']],
                                'model_scores': [i['score'] for i in p['model']['iters']]}, signature=sig('c04it', p['fen'], p['depth']))
            if len(ctx.v.violations) >= 5:
                break
    # the stand-pat value of quiescence nodes, asked directly: LazyEvaluate under a lattice of windows against the model's lazy_eval
    # (compared after clamping into the window: quiescence is fail-hard); a difference is judged by the property itself: where full
    # and cheap evaluation are within the lazy margin, the windowed value must act like the engine's own full evaluation
    lz_cases, lz_impl, _, lz_model, _, lz_stats = line_stream(ctx, 'lazy', 'lz04', [300 if ctx.quick else 2500])
    lazy_diff = 0
    for c, a, b in zip(lz_cases, lz_impl, lz_model):
        _, lfen, ld, al, be = c.split('\t')
        al, be = int(al), int(be)
        af, bf = a.split('|'), b.split('|')
        clamp = lambda v: max(al, min(be, v))
        if af[0] == 'OK' and len(af) > 4 and af[4] != 'same' and len(ctx.v.violations) < 5:
            ctx.v.violation('evaluation-changes-the-position-it-evaluates', {'fen': lfen, 'depth': int(ld), 'alpha': al, 'beta': be, 'observation': af[4][:300],
                            'how': 'LazyEvaluate(pos, %s, %d, %d) on the generator\'s top position (what quiescence does at every node), snapshot before and after' % (ld, al, be)},
                            signature=sig('c04lzpos', lfen))
            continue
        if af[0] == 'OK' and bf[0] == 'OK' and clamp(int(af[1])) == clamp(int(bf[1])):
            continue
        if af[0] != 'OK' and af[0] == bf[0]:
            continue
        lazy_diff += 1
        if len(ctx.v.violations) >= 5:
            continue
        if af[0] != 'OK':
            ctx.v.violation('evaluation-crashes', {'fen': lfen, 'alpha': al, 'beta': be, 'engine': a[:200], 'model': b[:200]}, signature=sig('c04lz', lfen, al, be))
        elif abs(int(af[2]) - int(af[3])) <= 320 and clamp(int(af[1])) != clamp(int(af[2])):
            ctx.v.violation('stand-pat-value-under-a-window-differs-from-the-static-evaluation',
                            {'fen': lfen, 'depth': int(ld), 'alpha': al, 'beta': be, 'windowed_evaluation': int(af[1]), 'full_evaluation': int(af[2]), 'material_part': int(af[3]),
                             'model_windowed_evaluation': bf[1] if len(bf) > 1 else b[:100],
                             'how': 'LazyEvaluate(pos, %s, %d, %d) in quiescence vs Evaluate(pos, %s): full and cheap evaluation are within the lazy margin, so the '
                                    'node is not an admitted deviation, yet the fail-hard search sees another value' % (ld, al, be, ld)},
                            signature=sig('c04lz', lfen, al, be))
        else:
            ctx.corr_broken.append({'case': c, 'impl': a, 'model': b})
    return {'evaluations': len(pos) + len(lz_cases), 'distinct_nontrivial': len(nontrivial), 'windowed_evaluations': len(lz_cases), 'windowed_evaluation_differences': lazy_diff,
            'windowed_evaluation_distribution': lz_stats,
            'rule': 'positions (sparse synthetic, playout, corpus) with `go depth d` (d by material: up to 3-4 with few men, 1-2 on full boards) on the real engine; '
                    'every completed iteration score compared with the model search (iterative deepening incl. early exits) and, on disagreement, with plain minimax of the full tree; '
                    'plus LazyEvaluate under ~38 windows per position (around its material score, its full score, zero, the lazy margin) on stalemate/mate templates, '
                    'templates, playout and synthetic positions against the model lazy_eval (LAZY stream); non-trivial = distinct (position, iteration) pairs compared',
            'iteration_scores_compared': compared, 'admitted_lazy_deviations': sens_skipped, 'traces_validated_against_impl': compared,
            'model_too_slow_skipped': sum(1 for p in pos if p.get('skipped')),
            'depth_histogram': {str(d): sum(1 for p in pos if p['depth'] == d) for d in (1, 2, 3, 4)},
            'samples': [{'fen': p['fen'], 'depth': p['depth'], 'engine': p['job'].lines[-2:] if p['job'].lines else None, 'model': p['model']} for p in pos[:2]]}


def replay_search(ctx, data):
    d = data['data']
    fen = d.get('fen')
    go = d.get('go') or ('go depth %d' % d.get('depth', 1))
    if not fen:
        print(json.dumps(d, indent=1)[:1500])
        return True
    j = S.run_jobs([S.Job(fen, go)])[0]
    print('\n'.join(j.lines or []))
    dep = int(go.split()[-1]) if go.split()[-1].isdigit() else 2
    print('model:', S.model_searches([(fen, min(dep, 3))])[0])
    return True


for _p in ('C03', 'C04', 'C05', 'C10', 'C14'):
    REPLAYS[_p] = replay_search


def terminal_nodes_under_windows(ctx):
    """C05, last sentence, at the place where the search applies it on the horizon: LazyEvaluate of a position without legal moves is
    the mate score (in check) or the draw score (not in check) whenever the window does not let the lazy exit answer first, and the
    position is left as it was (quiescence goes on to generate captures from it)."""
    lz_cases, lz_impl, _, lz_model, _, lz_stats = line_stream(ctx, 'lazy', 'lz05', [150 if ctx.quick else 1200])
    nterm = 0
    for c, a, b in zip(lz_cases, lz_impl, lz_model):
        _, lfen, ld, al, be = c.split('\t')
        al, be, ld = int(al), int(be), int(ld)
        af, bf = a.split('|'), b.split('|')
        if af[0] != 'OK' or len(af) < 6 or af[5] == '0':
            continue
        nterm += 1
        if len(ctx.v.violations) >= 5:
            break
        v, ms = int(af[1]), int(af[3])
        if af[4] != 'same':
            ctx.v.violation('evaluation-changes-a-position-without-legal-moves', {'fen': lfen, 'depth': ld, 'alpha': al, 'beta': be, 'observation': af[4][:300],
                            'how': 'LazyEvaluate on the generator\'s top position (every horizon/quiescence node), snapshot before and after; then e.g. `position fen %s`, `eval`, `go depth 2`' % lfen},
                            signature=sig('c05lzpos', lfen))
            continue
        clamp = lambda x: max(al, min(be, x))
        if af[5] == '2':
            want = -100000 + ld         # LostScore + depth: mate tests come before the lazy exit
        elif ms > be + 320 or ms < al - 320:
            continue                    # the lazy exit answers with the material score: the deviation C04 admits
        else:
            want = 0
        if clamp(v) != clamp(want):
            ctx.v.violation('position-without-legal-moves-not-scored-as-mate-or-draw', {'fen': lfen, 'in_check': af[5] == '2', 'depth': ld, 'alpha': al, 'beta': be,
                            'engine_value': v, 'expected': want, 'material_part': ms, 'model_value': bf[1] if len(bf) > 1 else b[:80],
                            'how': 'LazyEvaluate(pos, %d, %d, %d): the stand-pat value of a quiescence node' % (ld, al, be)}, signature=sig('c05lz', lfen, al, be))
    return {'terminal_positions_x_windows': nterm, 'distribution': lz_stats}


@check('C05', ['C05.v', 'C05mate.v', 'C05src.v'])
def c05(ctx):
    n = 260 if ctx.quick else 800
    lz = terminal_nodes_under_windows(ctx)
    allpos = S.positions(ctx, n, extra_seed=5)
    pos = [p for p in allpos if p['men'] <= 7]
    maxd = 3 if ctx.quick else 4
    # mate solver (AND/OR over the model's legal moves = rules by C01/C02), iteratively deepened
    solved = {}
    pending = list(range(len(pos)))
    for d in range(0, maxd + 1):
        outs = run_oracle(['MMATE\t%s\t%d' % (pos[i]['fen'], d) for i in pending])
        nxt = []
        for i, o in zip(pending, outs):
            if o.startswith('MATE '):
                solved[i] = int(o.split()[1])
            else:
                nxt.append(i)
        pending = nxt
    jobs, idx = [], []
    for i, p in enumerate(pos):
        if p['nlegal'] == 0:
            continue
        jobs.append(S.Job(p['fen'], 'go depth %d' % maxd))
        idx.append(i)
    S.run_jobs(jobs, workers=8)
    nontrivial = set()
    checked = mates_found = 0
    for i, j in zip(idx, jobs):
        p = pos[i]
        p['job'] = j
        if j.died or j.timeout:
            crash_violation(ctx, p, 'C05')
            continue
        parsed = uci.parse_search_output(j.lines)
        its = S.impl_iterations(parsed)
        if not its:
            continue
        last = max(its)
        kind, val, pv, nodes = its[last]
        checked += 1
        sol = solved.get(i)          # +k: mover mates in k plies; -k: mover is mated in k plies; None: no forced mate within maxd
        single = p['nlegal'] == 1
        if sol is not None and abs(sol) <= maxd and not single:
            mates_found += 1
            nontrivial.add(p['fen'])
            exp = (abs(sol) + 1) // 2 * (1 if sol > 0 else -1)
            if kind != 'mate' or val != exp:
                ctx.v.violation('forced-mate-not-reported-exactly', {'fen': p['fen'], 'go': 'go depth %d' % maxd, 'solver_plies': sol, 'expected': 'mate %d' % exp,
                                'engine_final': '%s %d' % (kind, val), 'engine_lines': j.lines[-3:]}, signature=sig('c05', p['fen']))
            else:
                # the move played keeps the mate: after it the opponent is mated in |sol|-1 (or we are mated in |sol|-1 ...)
                bm = parsed['bestmove'][-1] if parsed['bestmove'] else None
                if bm and sol > 0:
                    p['after'] = (bm, sol)
        elif kind == 'mate' and not single:
            # announced mate must be real: solver to the announced distance
            plies = abs(val) * 2 - (1 if val > 0 else 0)
            o = run_oracle(['MMATE\t%s\t%d' % (p['fen'], min(plies, maxd + 1))])[0]
            real = o.startswith('MATE ') and int(o.split()[1]) == (plies if val > 0 else -plies)
            if not (o.startswith('MATE ') or o == 'NONE'):
                undecided_mates = locals().get('undecided_mates', 0) + 1     # the solver ran out of time on this tree: no verdict
            elif not real:
                ctx.v.violation('announced-mate-does-not-exist', {'fen': p['fen'], 'engine_final': 'mate %d' % val, 'solver': o, 'engine_lines': j.lines[-3:]},
                                signature=sig('c05r', p['fen']))
        if len(ctx.v.violations) >= 5:
            break
    # the largest evaluations there are (nine queens and every original piece against a bare king, no mate within the horizon):
    # still centipawns, not a mate announcement
    extreme = ['8/8/6k1/2RQQN2/3N4/QB1QKR2/QQQ5/1Q2BQ2 b - - 0 1', '8/8/7k/2QRK3/QB1QN3/QQ1Q1Q2/Q1Q5/N3RB2 b - - 0 1',
               '1q2bq2/qqq5/qb1qkr2/3n4/2rqqn2/6K1/8/8 w - - 0 1']
    xo = run_oracle(['MMATE\t%s\t2' % f for f in extreme])
    xjobs = [S.Job(f, 'go depth 1') for f in extreme]
    S.run_jobs(xjobs, workers=3, per_job_timeout=60)
    for f, o, j in zip(extreme, xo, xjobs):
        par = uci.parse_search_output(j.lines or [])
        its = S.impl_iterations(par)
        checked += 1
        if j.died or j.timeout or not its:
            crash_violation(ctx, {'fen': f, 'job': j}, 'C05')
            continue
        kind, val, pv, nodes = its[max(its)]
        if kind == 'mate' and o == 'NONE':
            ctx.v.violation('announced-mate-does-not-exist', {'fen': f, 'go': 'go depth 1', 'engine_final': 'mate %d' % val, 'solver_to_2_plies': o,
                            'engine_lines': j.lines[-3:], 'note': 'an evaluation of extreme material is printed as a mate'}, signature=sig('c05x', f))
    # mates whose key move is an en-passant capture right after a double push that arrived in a move list
    mlm = ['6bk/3p3p/8/4P3/8/8/1B6/6K1 b - - 0 1 moves d7d5', '7k/3p4/4p3/4P3/8/5pPq/1B3P1P/7K b - - 0 1 moves d7d5',
           '1k6/8/8/8/4p3/8/3P3P/KB6 w - - 0 1 moves d2d4']
    for f, depth in [(x, d) for x in mlm for d in (1, 2, 3)]:
        o = run_oracle(['MMATE\t%s\t%d' % (f, depth)])[0]
        j = S.run_jobs([S.Job(f, 'go depth %d' % depth)])[0]
        par = uci.parse_search_output(j.lines or [])
        its = S.impl_iterations(par)
        checked += 1
        if j.died or j.timeout or not its:
            crash_violation(ctx, {'fen': f, 'job': j}, 'C05')
            continue
        kind, val, pv, nodes = its[max(its)]
        if not (o.startswith('MATE ') or o == 'NONE'):
            continue          # no verdict from the solver
        sol = int(o.split()[1]) if o.startswith('MATE ') else None
        exp = (abs(sol) + 1) // 2 * (1 if sol > 0 else -1) if sol is not None else None
        if (sol is not None and abs(sol) <= depth and (kind != 'mate' or val != exp)) or (sol is None and kind == 'mate' and abs(val) * 2 - (1 if val > 0 else 0) <= depth):
            ctx.v.violation('forced-mate-not-reported-exactly' if sol is not None else 'announced-mate-does-not-exist',
                            {'position': f, 'go': 'go depth %d' % depth, 'solver': o, 'engine_final': '%s %d' % (kind, val), 'engine_lines': j.lines[-3:],
                             'note': 'the position is given as FEN + move list; the last move is a double pawn push'}, signature=sig('c05m', f, depth))
    # forced mates that need an UNDER-promotion inside the tree (the queen stalemates): `go depth 5` against the mate solver
    under = ['8/8/1P6/8/8/8/5KPk/8 w - - 0 1', '8/8/6P1/8/8/8/kPK5/8 w - - 0 1', '8/5kpK/8/8/8/8/1p6/8 b - - 0 1', '8/Kpk5/8/8/8/8/6p1/8 b - - 0 1']
    uo = run_oracle(['MMATE\t%s\t5' % f for f in under])
    ujobs = [S.Job(f, 'go depth 5') for f in under]
    S.run_jobs(ujobs, workers=4)
    for f, o, j in zip(under, uo, ujobs):
        if not o.startswith('MATE '):
            continue
        sol = int(o.split()[1])
        exp = (abs(sol) + 1) // 2 * (1 if sol > 0 else -1)
        par = uci.parse_search_output(j.lines or [])
        its = S.impl_iterations(par)
        checked += 1
        if j.died or j.timeout or not its:
            crash_violation(ctx, {'fen': f, 'job': j}, 'C05')
            continue
        kind, val, pv, nodes = its[max(its)]
        mates_found += 1
        nontrivial.add(f)
        if kind != 'mate' or val != exp:
            ctx.v.violation('forced-mate-not-reported-exactly', {'fen': f, 'go': 'go depth 5', 'solver_plies': sol, 'expected': 'mate %d' % exp,
                            'engine_final': '%s %d' % (kind, val), 'engine_lines': j.lines[-3:], 'note': 'the mate needs a rook under-promotion (the queen promotion stalemates)'},
                            signature=sig('c05u', f))
    # the move played keeps the mate: after it the opponent is mated in sol-1 plies
    keep = [(p['fen'], p['after']) for p in pos if 'after' in p]
    outs = run_oracle(['MMATEAFTER\t%s\t%s\t%d' % (f, bm, sol - 1) for f, (bm, sol) in keep])
    for (f, (bm, sol)), o in zip(keep, outs):
        if o != 'MATE %d' % (-(sol - 1)):
            ctx.v.violation('move-played-does-not-keep-the-mate', {'fen': f, 'bestmove': bm, 'mate_in_plies': sol, 'after_the_move': o},
                            signature=sig('c05k', f))
    # terminal classification + eval band through `eval` and `go`
    term = [p for p in allpos if p['nlegal'] == 0]
    tjobs = [S.Job(p['fen'], 'go depth 2') for p in term[:40]]
    S.run_jobs(tjobs, workers=4)
    for p, j in zip(term, tjobs):
        if j.died or j.timeout:
            p['job'] = j
            crash_violation(ctx, p, 'terminal root')
        elif not any(l.startswith('bestmove 0000') for l in (j.lines or [])):
            ctx.v.violation('terminal-root-no-null-move', {'fen': p['fen'], 'lines': j.lines}, signature=sig('c05t', p['fen']))
    # |evaluation| stays far inside the mate band: POS stream evals
    ps = pos_stream(ctx, 'p05', 10 if ctx.quick else 400, 300 if ctx.quick else 20000, 1, 0)
    mx = 0
    for a, fen in zip(ps['impl'], ps['fens']):
        if a[0] == 'OK':
            ev = abs(int(a[8]))
            incheck_nomoves = (a[6] == '1' and a[4] == '0')
            if not incheck_nomoves:
                mx = max(mx, ev)
                if ev > CLOSE:
                    ctx.v.violation('evaluation-inside-mate-band', {'fen': fen, 'eval': int(a[8])}, signature=sig('c05b', fen))
            else:
                if int(a[8]) != -100000:
                    ctx.v.violation('checkmate-not-scored-as-mate', {'fen': fen, 'eval': int(a[8])}, signature=sig('c05m', fen))
            if a[6] == '0' and a[4] == '0' and int(a[8]) != 0:
                ctx.v.violation('stalemate-not-scored-as-draw', {'fen': fen, 'eval': int(a[8])}, signature=sig('c05s', fen))
    return {'evaluations': checked + len(ps['fens']), 'distinct_nontrivial': len(nontrivial),
            'rule': 'sparse positions (<= 7 men) solved by an AND/OR mate search over legal moves to %d plies; `go depth %d` must report `mate N` with exactly the '
                    'shortest distance (sign for the losing side) when a forced mate within the depth exists and the root has more than one move, and an announced mate must exist; '
                    'terminal roots; |eval| below the mate band and mate/stalemate classification on the POS stream; positions without legal moves (incl. stalemates '
                    'less than the lazy margin behind) under ~38 evaluation windows each: mate / draw value and position left unchanged (LAZY stream); non-trivial = distinct positions with a forced mate' % (maxd, maxd),
            'searched': checked, 'positions_with_forced_mate': mates_found, 'max_abs_eval_seen': mx, 'terminal_roots': len(tjobs), 'terminal_nodes_under_windows': lz,
            'traces_validated_against_impl': checked,
            'samples': [{'fen': pos[i]['fen'], 'solver_plies': solved.get(i)} for i in list(solved)[:3]]}


CLOSE = 20800


@check('C03', ['C03.v', 'C03chess.v', 'C03total.v'])
def c03(ctx):
    n = 160 if ctx.quick else 3000
    allp = [p for p in S.positions(ctx, n, extra_seed=3) if p['nlegal'] > 0]
    lists = [p for p in allp if p['src'].startswith('movelist')]
    others = [p for p in allp if not p['src'].startswith('movelist')]
    pos = lists + others[:max(60, n // 2)]
    forms = []
    for k, p in enumerate(pos):
        w = ' w ' in p['fen']
        d = S.depth_for(p, True)
        forms.append([('go depth %d' % d, None), ('go movetime 1', None), ('go movetime 80', None), ('go wtime 1 btime 1', None),
                      ('go wtime 300 btime 300 winc 10 binc 10 movestogo 3', None), ('go infinite', 0.0), ('go infinite', 0.03), ('go', 0.05),
                      ('go wtime 100000 btime 100000', 0.02), ('go depth 1', None), ('go movetime -5', None), ('go depth %d wtime 5 btime 5' % (d + 1), None)][k % 12:][:1]
                     + [('go depth 1', None)][:0])
    jobs = []
    for p, fs in zip(pos, forms):
        for go, stop in fs:
            jobs.append(S.Job(p['fen'], go, stop_after=stop, tag=p))
    # games long enough to carry the int16 game-ply counter past 32767 (negative afterwards), then every go form
    wrapfen = '4k1n1/8/8/8/8/8/8/4K1N1 w - - 0 15933 moves ' + ' '.join(['g1f3 g8f6 f3g1 f6g8'] * 230)
    for go, stop in (('go depth 3', None), ('go movetime 100', None), ('go infinite', 0.05), ('go wtime 1000 btime 1000', None)):
        jobs.append(S.Job(wrapfen, go, stop_after=stop, tag={'fen': wrapfen, 'src': 'plywrap'}))
    S.run_jobs(jobs, workers=8, per_job_timeout=60)
    # every small budget, one by one (a budget that collides with an internal marker or margin must still be answered): movetime
    # -3..130 ms, both clocks 0..120 ms, depth 1..45 with a 300 ms budget, on the start position and on an endgame with black to move
    sweep = []
    for sfen in ('startpos', '8/5k2/8/3p4/8/2P5/5K2/8 b - - 0 1'):
        tg = {'fen': sfen, 'src': 'budget-sweep'}
        step = 1 if (ctx.quick and sfen == 'startpos') or not ctx.quick else 7
        sweep += [S.Job(sfen, 'go movetime %d' % t, tag=tg) for t in range(-3, 131, step)]
        sweep += [S.Job(sfen, 'go wtime %d btime %d' % (t, t), tag=tg) for t in range(0, 121, 3 * step)]
        sweep += [S.Job(sfen, 'go depth %d movetime 300' % t, tag=tg) for t in range(1, 46, 3 * step)]       # (depth < 1 is a rejected command: no search, no answer)
    S.run_jobs(sweep, workers=12, per_job_timeout=20)
    jobs += sweep
    legal_req = []
    for j in jobs:
        parsed = uci.parse_search_output(j.lines or [])
        j.parsed = parsed
        if j.died or j.timeout:
            crash_violation(ctx, {'fen': j.fen, 'job': j}, 'no bestmove within 60 s' if j not in sweep else 'no bestmove within 20 s')
            continue
        if len(parsed['bestmove']) != 1:
            ctx.v.violation('not-exactly-one-bestmove', {'fen': j.fen, 'go': j.go, 'stop_after_s': j.stop_after, 'bestmove_lines': parsed['bestmove']},
                            signature=sig('c03n', j.fen, j.go))
            continue
        legal_req.append((j, parsed['bestmove'][0]))
    res = S.lines_legal([(j.fen, [bm]) for j, bm in legal_req])
    for (j, bm), r in zip(legal_req, res):
        if r != -1:
            ctx.v.violation('bestmove-is-not-legal', {'fen': j.fen, 'go': j.go, 'stop_after_s': j.stop_after, 'bestmove': bm, 'lines': j.lines[-3:]},
                            signature=sig('c03l', j.fen, j.go))
    # a second go right after the first bestmove (one bestmove per go)
    e = uci.Engine()
    e.ready()
    multi = 0
    for p in pos[:15]:
        e.send(S.pos_cmd(p['fen']))
        n0 = len(e.lines)
        for g in ('go depth 1', 'go movetime 1', 'go depth 2'):
            e.send(g)
            idx, died = e.read_until(lambda l: l.startswith('bestmove'), 30)
            if idx is None:
                ctx.v.violation('no-bestmove-for-consecutive-go', {'fen': p['fen'], 'go': g}, signature=sig('c03c', p['fen'], g))
                break
        time.sleep(0.05)
        e.ready()
        nb = sum(1 for l in e.lines[n0:] if l.startswith('bestmove'))
        multi += 1
        if nb != 3:
            ctx.v.violation('bestmove-count-for-three-go', {'fen': p['fen'], 'bestmove_lines': nb}, signature=sig('c03m', p['fen']))
    e.close()
    kinds = {}
    for j in jobs:
        kinds[j.go.split()[1] if len(j.go.split()) > 1 else 'bare'] = kinds.get(j.go.split()[1] if len(j.go.split()) > 1 else 'bare', 0) + 1
    # every go is answered exactly once also when it follows the previous bestmove at once (the old search thread still exiting)
    rcg, outg, errg, _ = harness(['rego'], timeout=300)
    for l in outg.strip().split('\n'):
        f = l.split('\t')
        if len(f) == 3 and f[0] != 'ok':
            ctx.v.violation('go-right-after-bestmove-gets-no-single-bestmove', {'first': 'position startpos; ' + f[1], 'then': 'position startpos moves e2e4; ' + f[2] + '; stop',
                            'observation': f[0], 'how': 'verifh rego (first search thread held at the sync point after its bestmove line while the second go is handled)'},
                            signature=sig('c03rego', f[1], f[2]))
    wide = wide_search(ctx)
    return {'evaluations': len(jobs) + multi * 3 + wide['searches'] + 4, 'distinct_nontrivial': len(set((j.fen, j.go, j.stop_after) for j in jobs)), 'wide': wide,
            'rule': 'positions with at least one legal move (and positions with 61..218 legal moves: `wide`) x go forms (depth, movetime incl. 1 ms and negative, clock forms incl. 1 ms budgets, infinite/bare followed by stop '
                    'after 0-50 ms, three consecutive go commands; every movetime -3..130 ms, clock 0..120 ms and depth 1..45 one by one); observable = number of bestmove lines per go and legality of the move by the model generator; '
                    'non-trivial = distinct (position, go form, stop delay)',
            'go_forms': kinds, 'traces_validated_against_impl': len(jobs),
            'samples': [{'fen': j.fen, 'go': j.go, 'stop_after_s': j.stop_after, 'bestmove': j.parsed['bestmove']} for j in jobs[:3]]}


def output_leaves_in_whole_lines(ctx, tag):
    """Two threads print (search: info/bestmove, commands: readyok, eval, perft, ...).  Their lines can be ordered but never mixed only
    if every line leaves the process in ONE write.  The engine runs under strace; every write to stdout must be a sequence of whole
    lines.  When a line is written in pieces, `isready` is streamed during searches to exhibit a torn line."""
    import subprocess, select
    tr = RUN + '/%s.strace' % tag
    try:
        pr = subprocess.Popen(['strace', '-f', '-e', 'trace=write', '-s', '3000', '-o', tr, uci.ENGINE], stdin=subprocess.PIPE, stdout=subprocess.PIPE, stderr=subprocess.DEVNULL, bufsize=0)
    except OSError:
        return {'writes_seen': 0, 'note': 'strace not available'}

    def send(t):
        pr.stdin.write(t.encode())
        pr.stdin.flush()

    def until(word, timeout):
        end = time.time() + timeout
        buf = b''
        while time.time() < end:
            r, _, _ = select.select([pr.stdout], [], [], 0.2)
            if r:
                d = os.read(pr.stdout.fileno(), 1 << 16)
                if not d:
                    return False
                buf += d
                if any(l.startswith(word) for l in buf.decode('latin-1').split('\n')):
                    return True
        return False
    send('uci\n')
    until('uciok', 10)
    for cmds, timeout in ((['position startpos', 'go depth 4'], 60), (['setoption name currmoveLogInterval value 10', 'position fen r3k2r/p1ppqpb1/bn2pnp1/3PN3/1p2P3/2N2Q1p/PPPBBPPP/R3K2R w KQkq - 0 1', 'go movetime 450'], 30),
                          (['position fen 8/2p5/3p4/KP5r/1R3p1k/8/4P1P1/8 w - - 0 1', 'go depth 3'], 60), (['position fen 7k/5Q2/6K1/8/8/8/8/8 b - - 0 1', 'go depth 2'], 20)):
        send('\n'.join(cmds) + '\n')
        until('bestmove', timeout)
    send('eval\nperft 1\nisready\n')
    until('readyok', 10)
    send('quit\n')
    try:
        pr.wait(10)
    except subprocess.TimeoutExpired:
        pr.kill()
    pieces, nwrites = [], 0
    for l in read_lines(tr):
        m = re.match(r'^\d+\s+write\(1, "(.*)"(\.\.\.)?, \d+\)', l)
        if not m:
            continue
        nwrites += 1
        if not m.group(1).endswith('\\n') and not m.group(2):
            pieces.append(m.group(1)[:200])
    if pieces:
        # exhibit the torn line: pings stream in while searches print
        ok = [re.compile(r'^readyok$'), uci.INFO_DEPTH, uci.INFO_SCORE, re.compile(r'^info currmove '), uci.BESTMOVE]
        torn = None
        e = uci.Engine()
        e.ready()
        positions = ['position startpos', 'position startpos moves e2e4 e7e5 g1f3 b8c6 f1b5 a7a6', 'position fen r3k2r/p1ppqpb1/bn2pnp1/3PN3/1p2P3/2N2Q1p/PPPBBPPP/R3K2R w KQkq - 0 1',
                     'position fen 8/2p5/3p4/KP5r/1R3p1k/8/4P1P1/8 w - - 0 1']
        ping = 'isready\n' * 200
        t_end = time.time() + (40 if ctx.quick else 240)
        rnd = 0
        while torn is None and time.time() < t_end:
            n0 = len(e.lines)
            e.send((ping + positions[rnd % 4] + '\n' + ping + 'go depth 5').encode())
            idx, died = e.read_until(lambda l: 'bestmove' in l, 60, start=n0)
            e.ready()
            for l in e.lines[n0:]:
                if not any(r.match(l) for r in ok):
                    torn = {'round': rnd, 'position': positions[rnd % 4], 'line': l[:300]}
                    break
            rnd += 1
        e.close()
        d = {'pieces_written_without_line_end': pieces[:5], 'how': 'strace -f -e trace=write on the engine: a line of output leaves the process in more than one write, '
             'so a line of the other thread (e.g. readyok) can land inside it'}
        if torn:
            d['torn_line_observed'] = torn
            d['how'] += '; exhibited by streaming `isready` while `go depth 5` runs (round %d)' % torn['round']
        ctx.v.violation('output-line-written-in-pieces', d, signature=sig(tag, 'pieces', pieces[0][:40]), no_input=torn is None)
    return {'writes_seen': nwrites, 'writes_not_ending_a_line': len(pieces)}


@check('C10', ['C10.v', 'C03chess.v'])
def c10(ctx):
    atom = output_leaves_in_whole_lines(ctx, 'c10')
    n = 70 if ctx.quick else 2000
    pos = [p for p in S.positions(ctx, n, extra_seed=10) if p['nlegal'] > 0]
    jobs = []
    for k, p in enumerate(pos):
        d = S.depth_for(p, ctx.quick) + (1 if k % 3 == 0 else 0)
        hist = ['setoption name currmoveLogInterval value %d' % [10, 50, 1000][k % 3]]
        if k % 4 == 3:
            jobs.append(S.Job(p['fen'], 'go infinite', history=hist, stop_after=0.25 + 0.1 * (k % 5)))   # mid-iteration PV prints need >= 200 ms
        elif k % 8 == 1:
            # a deadline that has passed before the first root move is searched (movetime <= margin), after another position was searched
            jobs.append(S.Job(p['fen'], 'go movetime %d' % [1, 10, 50, 51, 60][k % 5], history=hist + [S.pos_cmd(pos[(k + 7) % len(pos)]['fen']), 'go depth 2', ('wait',)]))
        elif k % 8 == 5:
            jobs.append(S.Job(p['fen'], 'go infinite', history=hist, stop_after=0.0))      # stop right behind the go
        else:
            jobs.append(S.Job(p['fen'], 'go depth %d' % d, history=hist))
    S.run_jobs(jobs, workers=8, per_job_timeout=90)
    reqs, meta = [], []
    npv = ncurr = 0
    for j in jobs:
        parsed = uci.parse_search_output(j.lines or [])
        if j.died or j.timeout:
            crash_violation(ctx, {'fen': j.fen, 'job': j}, 'C10')
            continue
        for l in parsed['malformed']:
            ctx.v.violation('malformed-info-line', {'fen': j.fen, 'go': j.go, 'line': l}, signature=sig('c10f', l[:60]))
        pvs = []
        last_pv = None
        for l in j.lines:
            m = uci.INFO_DEPTH.match(l) or uci.INFO_SCORE.match(l)
            if m:
                pv = m.group(7).split()
                last_pv = pv
                pvs.append(pv)
            m = uci.BESTMOVE.match(l)
            if m:
                if last_pv is None or not last_pv or m.group(1) != last_pv[0]:
                    ctx.v.violation('bestmove-is-not-head-of-last-pv', {'fen': j.fen, 'go': j.go, 'bestmove': m.group(1), 'last_pv': last_pv},
                                    signature=sig('c10b', j.fen, j.go))
        for pv in pvs:
            npv += 1
            if not pv:
                ctx.v.violation('empty-pv', {'fen': j.fen, 'go': j.go}, signature=sig('c10e', j.fen, j.go))
            reqs.append((j.fen, pv))
            meta.append((j, pv))
        # currmove lines: a legal root move with its 1-based number (number <= number of root moves)
        nleg = j.tag['nlegal'] if j.tag else None
        for c in parsed['curr_lines']:
            ncurr += 1
            reqs.append((j.fen, [c['move']]))
            meta.append((j, ['currmove', c['move'], c['number']]))
    res = S.lines_legal(reqs)
    for (j, pv), r in zip(meta, res):
        if r != -1:
            ctx.v.violation('illegal-move-in-printed-line', {'fen': j.fen, 'go': j.go, 'line': pv, 'first_illegal_index': r}, signature=sig('c10l', j.fen, ' '.join(map(str, pv))))
            if len(ctx.v.violations) >= 5:
                break
    return {'evaluations': npv + ncurr, 'distinct_nontrivial': len(set((m[0].fen, ' '.join(map(str, m[1]))) for m in meta)),
            'rule': 'every `info ... pv` line of real searches (depth-limited with low currmove logging interval, and infinite+stop after 250-650 ms so that '
                    'mid-iteration PV lines are printed) replayed move by move on the model generator; bestmove = head of the last PV line; info-line grammar by regex; '
                    'currmove lines name a legal root move; every write to stdout (strace) is a sequence of whole lines, so concurrent command output cannot land inside an info line; '
                    'non-trivial = distinct (position, line)',
            'pv_lines': npv, 'currmove_lines': ncurr, 'searches': len(jobs), 'traces_validated_against_impl': npv + ncurr, 'output_in_whole_lines': atom,
            'samples': [{'fen': m[0].fen, 'line': m[1]} for m in meta[:3]]}


def strip_volatile(lines):
    out = []
    for l in lines:
        if l.startswith('info depth') or l.startswith('bestmove'):
            l = re.sub(r' nps -?\d+', '', l)
            l = re.sub(r' time -?\d+', '', l)
            out.append(l.strip())
        elif l.startswith('info score'):
            l = re.sub(r' nps -?\d+', '', l)
            l = re.sub(r' time -?\d+', '', l)
            out.append('FINAL ' + l.strip())
    # mid-iteration `info score` lines depend on the 200 ms wall-clock threshold: keep only the last one (the final summary)
    finals = [x for x in out if x.startswith('FINAL')]
    return [x for x in out if not x.startswith('FINAL')] + finals[-1:]


@check('C14', ['C14.v'])
def c14(ctx):
    n = 60 if ctx.quick else 1200
    pos = [p for p in S.positions(ctx, n, extra_seed=14) if p['nlegal'] > 0 and p['men'] >= 6]
    rnd = ctx.rng
    others = [p['fen'] for p in pos]
    jobs_a, jobs_b = [], []
    MOVE_NUMBERS = [1, 2, 30, 100, 150, 156, 160, 165, 170, 174, 175, 176, 200, 330, 340, 349, 350, 351, 500, 5000]
    for pi, p in enumerate(pos):
        d = max(2, S.depth_for(p, ctx.quick))
        if not p['fen'].startswith('startpos'):
            f = p['fen'].split(' ')
            f[5] = str(MOVE_NUMBERS[pi % len(MOVE_NUMBERS)])      # game-ply dependent state (killer slots) at and around its boundaries
            p['fen'] = ' '.join(f)
        # history: other games, searches (completed and stopped), perft/eval, option changes, isready
        hist = []
        if pi % 2 == 0:
            # the same position searched deeper before: its killer moves are the ones that matter in the probe's tree
            hist += [S.pos_cmd(p['fen']), 'go depth %d' % (d + 1), ('wait',)]
        for _ in range(rnd.randint(1, 4)):
            o = rnd.choice(others)
            if rnd.random() < 0.3:
                o = p['fen']
            hist.append(S.pos_cmd(o))
            k = rnd.randint(0, 8)
            if k == 6:
                # a root without legal moves answers at once, without looking at the stop channel: a stop sent right behind the go
                hist[-1] = S.pos_cmd(rnd.choice(['7k/5Q2/6K1/8/8/8/8/8 b - - 0 1', '7k/6Q1/6K1/8/8/8/8/8 b - - 0 1', 'startpos moves f2f3 e7e5 g2g4 d8h4']))
                hist += ['go depth 3', 'stop', ('wait',)]
            elif k == 7:
                hist += ['go depth 1', 'stop', ('wait',)]          # stop racing with the end of a very short search
            elif k == 8:
                hist += ['go infinite', 'stop', ('wait',), 'stop', 'isready']
            elif k == 0:
                hist += ['go depth 2', ('wait',)]
            elif k == 1:
                hist += ['go infinite', ('sleep', 0.03), 'stop', ('wait',)]
            elif k == 2:
                hist += ['perft 2', 'eval']
            elif k == 3:
                hist += ['setoption name currmoveLogInterval value %d' % rnd.choice([10, 77, 5000]), 'go depth 1', ('wait',)]
            elif k == 4:
                hist += ['isready', 'go movetime 20', ('wait',)]
            else:
                hist += ['position startpos moves e2e4 e7e5', 'go depth 3', ('wait',)]
        if pi % 3 == 1:
            # the probe's own position command applied before, then a position command that is rejected or fails half way through its move list
            hist += [S.pos_cmd(p['fen']), rnd.choice(['position startpos moves e2e4 e7e5 xx', 'position startpos moves e2e4  e7e5', 'position fen 8/8/8 w - - 0 1',
                                                     'position startpos moves d2d4 d7d5 c2c', 'position fen rnbqkbnr/pppppppp/8/8/8/8/PPPPPPPP/RNBQKBNR w KQkq - 0 1 moves e2e4 e7',
                                                     'position startpos moves g1f3 g8f6 f3g1 i9i8', 'position'])]
            if rnd.random() < 0.5:
                hist += ['isready', 'eval']
        jobs_a.append(S.Job(p['fen'], 'go depth %d' % d))
        jobs_b.append(S.Job(p['fen'], 'go depth %d' % d, history=hist))
    S.run_jobs(jobs_a, workers=8, fresh_process_each=True)
    S.run_jobs(jobs_b, workers=8, fresh_process_each=True)
    diffs = 0
    for p, a, b in zip(pos, jobs_a, jobs_b):
        if a.died or a.timeout or b.died or b.timeout:
            crash_violation(ctx, {'fen': p['fen'], 'job': b if (b.died or b.timeout) else a}, 'C14')
            continue
        la, lb = strip_volatile(a.lines), strip_volatile(b.lines)
        if la != lb:
            diffs += 1
            ctx.v.violation('analysis-depends-on-history', {'fen': p['fen'], 'go': a.go, 'history': [h if isinstance(h, str) else list(h) for h in b.history],
                            'fresh_session': la, 'after_history': lb}, signature=sig('c14', p['fen'], a.go))
            if len(ctx.v.violations) >= 5:
                break
    # a probe that follows the previous bestmove at once, while the old search thread is still on its way out
    rcg, outg, errg, _ = harness(['rego'], timeout=300)
    for l in outg.strip().split('\n'):
        f = l.split('\t')
        if len(f) == 3 and f[0].startswith('analysis of the second go differs'):
            ctx.v.violation('analysis-depends-on-history', {'history': 'position startpos; ' + f[1] + ' (search thread held right after its bestmove line, released after the next go)',
                            'probe': 'position startpos moves e2e4; ' + f[2], 'observation': f[0], 'how': 'verifh rego'}, signature=sig('c14rego', f[1], f[2]))
    return {'evaluations': len(pos) * 2 + 6, 'distinct_nontrivial': len(pos),
            'rule': 'probe (`position P`, `go depth d`) in a fresh process and after a random history (other positions, completed and stopped searches, perft/eval, '
                    'setoption with different logging intervals, isready, the probe position followed by a position command that fails half way); compared: every `info depth` line (score, nodes, pv), the final summary and bestmove, with time/nps removed; '
                    'non-trivial = distinct probes',
            'probes': len(pos), 'differences': diffs, 'traces_validated_against_impl': len(pos),
            'samples': [{'fen': pos[0]['fen'], 'history': [h if isinstance(h, str) else list(h) for h in jobs_b[0].history], 'output': strip_volatile(jobs_b[0].lines or [])}] if pos else []}


# =====================================================================================================
# C11 / C12: schedules (search thread held at a phase through the sync hook)

def run_sched(ctx, npos, maxd, maxk, binary='verifh', mode='all'):
    rc, out, err, stats = harness(['sched', str(npos), str(maxd), str(maxk), mode], timeout=3000, binary=binary)
    rows = []
    for l in out.split('\n'):
        l = l.strip()
        if l.startswith('{'):
            try:
                rows.append(json.loads(l))
            except ValueError:
                pass
    return rows, err, rc


def sched_sig(r, kind):
    return sig(kind, r['fen'], r['go'], r['at'], ' '.join(r['cmds']), r['hold_ms'])


def sched_desc(r):
    return {'fen': r['fen'], 'go': r['go'], 'search_thread_held_at': r['at'], 'commands_issued_there': r['cmds'], 'hold_ms': r['hold_ms'],
            'output': r['lines'][-8:], 'replay': 'verifh sched (the schedule is enumerated deterministically; this row is identified by the fields above)'}


@check('C11', ['C11.v', 'C03chess.v'])
def c11(ctx):
    npos, maxd, maxk = (4, 3, 3) if ctx.quick else (9, 4, 6)
    rows, err, rc = run_sched(ctx, npos, maxd, maxk, mode='c11')
    cut = [r for r in rows if ('stop' in r['cmds'] or r['hold_ms'] > 0) and r['reached']]
    req, meta = [], []
    nontrivial = set()
    for r in cut:
        bms = [l.split()[1] for l in r['lines'] if l.startswith('bestmove ')]
        if not bms:
            ctx.v.violation('no-bestmove-after-interruption', sched_desc(r), signature=sched_sig(r, 'c11n'))
            continue
        bm = bms[0]
        nontrivial.add((r['fen'], r['at'], r['hold_ms'] > 0))
        if r['deepest'] >= 1 and r['ref_best']:
            if bm != r['ref_best']:
                d = sched_desc(r)
                d.update({'bestmove': bm, 'deepest_completed_iteration': r['deepest'], 'go_depth_D_plays': r['ref_best'],
                          'statement': 'the move played must be the first PV move of the deepest fully completed iteration'})
                ctx.v.violation('partial-iteration-leaked-into-bestmove', d, signature=sched_sig(r, 'c11'))
        req.append((r['fen'], [bm]))
        meta.append(r)
    for r, res in zip(meta, S.lines_legal(req)):
        if res != -1:
            ctx.v.violation('illegal-bestmove-after-interruption', sched_desc(r), signature=sched_sig(r, 'c11l'))
    # wall-clock interruptions at arbitrary times (validation): stop after random delays, compare with go depth D
    jobs = []
    fens = sorted(set(r['fen'] for r in rows))
    for i in range(12 if ctx.quick else 200):
        jobs.append(S.Job(fens[i % len(fens)], 'go infinite', stop_after=0.002 * (1 + (i * 7) % 40)))
    S.run_jobs(jobs, workers=4, per_job_timeout=30, fresh_process_each=True)
    refs = []
    for j in jobs:
        p = uci.parse_search_output(j.lines or [])
        ds = [d['depth'] for d in p['depth_lines']]
        if j.died or j.timeout or len(p['bestmove']) != 1:
            ctx.v.violation('no-single-bestmove-after-stop', {'fen': j.fen, 'stop_after_s': j.stop_after, 'lines': (j.lines or [])[-4:]}, signature=sig('c11w', j.fen, j.stop_after))
            continue
        if ds:
            refs.append((j, max(ds), p['bestmove'][0]))
    rjobs = [S.Job(j.fen, 'go depth %d' % d) for j, d, bm in refs]
    S.run_jobs(rjobs, workers=4, per_job_timeout=120, fresh_process_each=True)
    for (j, d, bm), rj in zip(refs, rjobs):
        rb = uci.parse_search_output(rj.lines or [])['bestmove']
        if rb and rb[0] != bm:
            ctx.v.violation('partial-iteration-leaked-into-bestmove', {'fen': j.fen, 'go': 'go infinite', 'stop_after_s': j.stop_after, 'bestmove': bm,
                            'deepest_completed_iteration': d, 'go_depth_D_plays': rb[0], 'lines': j.lines[-4:]}, signature=sig('c11w', j.fen, j.stop_after))
    return {'evaluations': len(cut) + len(jobs), 'distinct_nontrivial': len(nontrivial),
            'rule': 'search thread held (sync hook) after root move k of iteration d, after each iteration, at entry, before/after bestmove, for d<=%d, k<%d, on %d positions; '
                    'there the command thread sends stop (or the thread is held beyond a movetime budget: deadline expiry at that point); bestmove must equal what `go depth D` '
                    'plays for the deepest completed iteration D and be legal; plus stops at wall-clock delays; non-trivial = distinct (position, phase, stop|deadline)' % (maxd, maxk, npos),
            'schedules': len(rows), 'interruptions': len(cut), 'wallclock_interruptions': len(jobs), 'traces_validated_against_impl': len(cut) + len(jobs),
            'samples': [sched_desc(r) for r in cut[:2]]}


@check('C12', ['C12.v', 'C12lat.v'], race=True)
def c12(ctx):
    npos, maxd, maxk = (3, 3, 3) if ctx.quick else (10, 4, 6)
    rows, err, rc = run_sched(ctx, npos, maxd, maxk, mode='c12')
    nontrivial = set()
    for r in rows:
        nontrivial.add((r['at'], ' '.join(r['cmds']), r['go'].split()[1]))
        bad = None
        if r['blocked']:
            bad = ('command-thread-blocked', 'commands that did not return within their deadline: %s' % r['blocked'])
        elif not r['finished']:
            bad = ('search-did-not-end', 'no bestmove within 6 s although stop was sent / the go was bounded (lost stop or deadlock)')
        elif r['bestmoves'] != 1:
            bad = ('not-exactly-one-bestmove', '%d bestmove lines for one go' % r['bestmoves'])
        elif r['readyoks'] != r['expected_readyoks']:
            bad = ('isready-not-answered', '%d readyok for %d isready' % (r['readyoks'], r['expected_readyoks']))
        elif not r['after_ready_ok']:
            bad = ('engine-unusable-afterwards', 'isready after the schedule was not answered')
        elif not r['after_go_ok']:
            bad = ('engine-unusable-afterwards', 'a following `position <probe>` + `go depth 2` was not served as in a fresh session (exactly one bestmove, same scores '
                   'and depths): ' + r.get('after_go_note', ''))
        if bad:
            d = sched_desc(r)
            d['observation'] = bad[1]
            ctx.v.violation(bad[0], d, signature=sched_sig(r, 'c12'))
            if len(ctx.v.violations) >= 5:
                break
    # the single bestmove a search ends with after any of these interleavings is a move of the searched position
    breq, bmeta = [], []
    for r in rows:
        bms = [l.split()[1] for l in r['lines'] if l.startswith('bestmove ') and len(l.split()) > 1]
        if len(bms) == 1 and bms[0] != '0000':
            breq.append((r['fen'], [bms[0]]))
            bmeta.append((r, bms[0]))
    for (r, bm), res in zip(bmeta, S.lines_legal(breq)):
        if res != -1 and len(ctx.v.violations) < 5:
            d = sched_desc(r)
            d['observation'] = 'the search ended with `bestmove %s`, which is not a legal move of the position it searched' % bm
            ctx.v.violation('search-ended-by-stop-answers-with-an-illegal-move', d, signature=sched_sig(r, 'c12legal'))
    # the shared state step by step against the transition system the theorems are about (Protocol.v): random interleavings of
    # commands and search-thread progress, every poll of the stop channel preceded by a sync point
    pn, psteps = (150, 30) if ctx.quick else (6000, 40)
    pcases, pimpl, pmodel, praw, pnotes, pstats = line_stream(ctx, 'proto', 'pr12', [pn, psteps])
    proto_bad = 0
    for c, a, m in zip(pcases, pimpl, pmodel):
        if 'PROBLEM' in a:
            proto_bad += 1
            ctx.v.violation('command-blocked-or-search-thread-stuck', {'schedule_tokens': c.split('\t')[1], 'observation': a.split('PROBLEM', 1)[1].strip(),
                            'how': 'verifh proto (seed %s); tokens: go/stop/isready/other = commands, enter/poll/complete/print = search-thread steps' % common.seed()},
                            signature=sig('c12proto', c[:300]))
        elif a != m:
            proto_bad += 1
            oa, om = a.split('|'), m.split('|')
            k = next((i for i in range(min(len(oa), len(om))) if oa[i] != om[i]), min(len(oa), len(om)))
            toks = c.split('\t')[1].split(' ')
            upto, seen = [], 0
            for t in toks:
                upto.append(t)
                if t == 'obs':
                    seen += 1
                    if seen > k:
                        break
            ctx.corr_broken.append({'stream': 'PROTO', 'tokens_up_to_the_first_difference': ' '.join(upto), 'observation_index': k,
                                    'fields': 'running,pending_stop,bestmoves,readyoks,interrupted,phase',
                                    'engine': oa[k] if k < len(oa) else None, 'model': om[k] if k < len(om) else None})
        if proto_bad >= 5:
            break
    # promptness of stop where the search thread is NOT at a sync point: capture-heavy positions whose quiescence trees run for
    # minutes; `go infinite`, stop after 50-400 ms, the bestmove must follow within the bound
    bound = 5.0
    heavy = ['qqqqkqqq/qqqqqqqq/8/8/8/8/QQQQQQQQ/QQQQKQQQ w - - 0 1', 'qqqqkqqq/qqqqqqqq/8/8/8/8/QQQQQQQQ/QQQQKQQQ b - - 0 1',
             'rrqqkqrr/qqqqqqqq/8/8/8/8/QQQQQQQQ/RRQQKQRR w - - 0 1', 'qrbnkbrq/pppppppp/8/8/8/8/PPPPPPPP/QRBNKBRQ w - - 0 1',
             'qqqqkqqq/pppppppp/8/8/8/8/PPPPPPPP/QQQQKQQQ w - - 0 1', '3qk1q1/q2q3q/1q6/8/8/1Q6/Q2Q3Q/3QK1Q1 w - - 0 1']
    rcw, outw, errw, _ = harness(['widefens', str(8 if ctx.quick else 60)])
    heavy += [l.split('\t')[0] for l in outw.strip().split('\n') if '\t' in l]
    ljobs = [S.Job(f, 'go infinite', stop_after=d) for f in heavy for d in ((0.05, 0.4) if ctx.quick else (0.0, 0.05, 0.4, 1.5))]
    S.run_jobs(ljobs, workers=6, per_job_timeout=bound + 2.0)
    slow = 0
    for j in ljobs:
        late = j.timeout or (not j.died and j.elapsed - j.stop_after > bound)
        if j.died or late:
            slow += 1
            if slow <= 3:
                ctx.v.violation('search-did-not-end-promptly-after-stop' if late else 'engine-died-after-stop',
                                {'fen': j.fen, 'go': 'go infinite', 'stop_sent_after_s': j.stop_after, 'bound_s': bound, 'bestmove_seen': not j.timeout and not j.died,
                                 'seconds_from_go_to_bestmove': round(j.elapsed, 2), 'stderr': j.stderr[-400:],
                                 'how': '`position fen %s`, `go infinite`, wait %.2f s, `stop`: no bestmove within %.0f s' % (j.fen, j.stop_after, bound)},
                                signature=sig('c12lat', j.fen))
    # a go accepted while the previous search thread is between its bestmove line and its exit
    rcg, outg, errg, _ = harness(['rego'], timeout=300)
    for l in outg.strip().split('\n'):
        f = l.split('\t')
        if len(f) == 3 and f[0] != 'ok':
            ctx.v.violation('go-right-after-bestmove-is-not-served', {'first': 'position startpos; ' + f[1], 'then': 'position startpos moves e2e4; ' + f[2] + '; stop',
                            'observation': f[0], 'schedule': 'the first search thread is held at the sync point after its bestmove line while the second go is handled, then released',
                            'how': 'verifh rego'}, signature=sig('c12rego', f[1], f[2]))
    rc2, out2, err2, _ = harness(['idle'])
    if 'blocked=0 bestmoves=1 readyoks=3' not in out2:
        ctx.v.violation('stop-or-isready-with-no-search-misbehaves', {'script': 'stop stop isready stop `position startpos` stop isready `go depth 1` ... stop stop isready',
                        'observed': out2.strip(), 'expected': 'blocked=0 bestmoves=1 readyoks=3', 'stderr': err2[-500:]}, signature='c12idle')
    races = None
    if not ctx.quick and os.path.exists(common.B + '/verifh_race'):
        rows2, err_r, rc_r = run_sched(ctx, 2, 2, 2, binary='verifh_race', mode='c12')
        races = err_r.count('WARNING: DATA RACE')
        if races:
            ctx.v.violation('data-race-between-command-and-search-thread', {'race_detector_report': err_r[:3000], 'schedules_run': len(rows2)}, signature='c12race')
    ctx.assumptions.append('Go memory model / scheduler below the granularity of shared operations is not modelled (label: partial); race detector run in the thorough tier')
    return {'evaluations': len(rows) + 1 + len(ljobs) + len(pcases), 'distinct_nontrivial': len(nontrivial), 'stop_latency_searches': len(ljobs),
            'protocol_schedules_vs_model': len(pcases), 'protocol_schedule_stats': pstats, 'protocol_state_mismatches': proto_bad,
            'rule': 'PROTO: random interleavings of go/stop/isready/other with search-thread progress, shared state (running flag, pending stop, bestmoves, readyoks, '
                    'interruption flag, phase) after every step against Protocol.step; stop latency on capture-heavy positions (real binary, stop 50-400 ms after go infinite, '
                    'bestmove within 5 s); interleavings: command words {stop, isready, stop stop, isready stop, stop isready} x search-thread phases {entered, after root move k of iteration d, iteration '
                    'done, before bestmove, after bestmove} (d<=%d, k<%d) x go form, then isready and another go; every command has a liveness deadline; plus commands with no search '
                    'alive; non-trivial = distinct (phase, command word, go form)' % (maxd, maxk),
            'schedules': len(rows), 'race_detector_reports': races, 'traces_validated_against_impl': len(rows),
            'samples': [sched_desc(r) for r in rows[:2]], 'partial': ['Go memory model not modelled']}


# =====================================================================================================
# C16 queries never change the game position; C17 no input line crashes or wedges; C18 capacities; C19 termination
import lines as L
import subprocess, threading


@check('C16', ['C16.v', 'C16sess.v'])
def c16(ctx):
    n = 150 if ctx.quick else 1500
    rc, out, err, stats = harness(['queries', str(n)], timeout=3000)
    rows = [l.split('\t') for l in out.strip().split('\n') if l]
    kinds = {}
    for r in rows:
        for c in (r[2] if len(r) > 2 else '').split('; '):
            k = c.split()[0] + (' ' + c.split()[1] if c.startswith('go') and len(c.split()) > 1 else '')
            kinds[k] = kinds.get(k, 0) + 1
        if not r[0].startswith('ok'):
            ctx.v.violation('query-changed-the-game-position', {'setup': r[1], 'queries': r[2] if len(r) > 2 else '', 'observation': r[0][4:],
                            'note': '`go infinite @d,k` = go infinite, stop sent while the search thread is held after root move k of iteration d; '
                                    '`go infinite #d,nd` = stop sent while it is held inside iteration d after a move at a node of depth nd'},
                            signature=sig('c16', r[1], r[2] if len(r) > 2 else ''))
            if len(ctx.v.violations) >= 5:
                break
    return {'evaluations': len(rows), 'distinct_nontrivial': len(set((r[1], r[2] if len(r) > 2 else '') for r in rows)),
            'rule': 'random sequences of 1-6 query commands (go depth/movetime run to completion, go infinite stopped at a sync phase, perft, tperft, eval, tostr, isready, setoption) '
                    'after `position`; after every command: position-stack index 0 and snapshot equal to the one right after `position`; afterwards legal moves equal and a probe '
                    'search plays the same move with the same score as in a fresh session; non-trivial = distinct (position, query sequence)',
            'query_kinds': kinds, 'traces_validated_against_impl': len(rows),
            'samples': [{'setup': r[1], 'queries': r[2] if len(r) > 2 else ''} for r in rows[:3]]}


def strip_log(cls):
    return cls.rsplit('|', 1)[0] if '|' in cls else cls


@check('C17', ['C17.v', 'C17full.v'])
def c17(ctx):
    nscripts, nlines = (48, 22) if ctx.quick else (800, 30)
    rng = ctx.rng
    scripts = [L.gen_script(rng, nlines) for _ in range(nscripts)]
    # legal move lists long enough to carry the int16 game-ply counter past 32767 (the loader's move-number cap leaves ~900 plies)
    shuffle = ' '.join(['g1f3 g8f6 f3g1 f6g8'] * 250)
    scripts.append(['position fen rnbqkbnr/pppppppp/8/8/8/8/PPPPPPPP/RNBQKBNR w KQkq - 0 15933 moves ' + shuffle, 'isready', 'go depth 2', 'perft 1', 'tperft 1', 'eval', 'isready'])
    scripts.append(['position fen rnbqkbnr/pppppppp/8/8/8/8/PPPPPPPP/RNBQKBNR w KQkq - 0 15900 moves ' + shuffle, 'go depth 1', 'perft 2', 'isready'])
    # legal move lists the generator does not produce by itself: a piece (not a pawn) moving two ranks beside an enemy pawn, a
    # promotion that captures a rook on its corner, a stalemating move -- each followed by the commands that look at the position
    rcf, outf, errf, _ = harness(['fens', '60'])
    for l in outf.strip().split('\n'):
        f = l.split('\t')
        if len(f) == 5 and f[3] in ('movelist-2rank-beside-pawn', 'corner-promo', 'movelist-2rank') and ' moves ' in f[4]:
            scripts.append([S.pos_cmd(f[4]), 'eval', 'perft 1', 'tperft 1', 'go depth 1', 'isready'])
    # positions with more than 60 legal moves (long move lists at inner nodes): search and a three-ply walk, then liveness
    rcw, outw, errw, _ = harness(['widefens', '6'])
    for l in outw.strip().split('\n'):
        if '\t' in l:
            scripts.append(['position fen ' + l.split('\t')[0], 'go depth 2', 'perft 3', 'isready', 'tperft 2', 'eval'])
    nscripts = len(scripts)
    model_raw = run_oracle(['SESS\t' + '\n'.join(s).encode('latin-1', 'replace').hex() for s in scripts])
    models = []
    for m in model_raw:
        models.append([strip_log(x) for x in m.split(';')])
    results = [None] * nscripts
    it = iter(range(nscripts))
    lock = threading.Lock()

    def worker():
        while True:
            with lock:
                try:
                    i = next(it)
                except StopIteration:
                    return
            if len(models[i]) < len(scripts[i]) and not models[i][-1].endswith('QUIT'):
                continue                 # the extracted model did not finish this script in time: not run (the driver needs its answers)
            results[i] = L.run_script(scripts[i], models[i])
    th = [threading.Thread(target=worker) for _ in range(8)]
    for t in th:
        t.start()
    for t in th:
        t.join()
    ncmp = 0
    kinds = {}
    for i, rp in enumerate(results):
        if rp is None:
            continue
        res, problem = rp
        if any(m.startswith('PANIC') for m in models[i]):
            ctx.corr_broken.append({'script': scripts[i], 'model': models[i]})
            continue
        if problem:
            k = len(res)
            ctx.v.violation('engine-crashed-or-wedged', {'script': scripts[i][:k + 1], 'observation': problem,
                            'how': 'send the lines to the engine binary, then `isready`'}, signature=sig('c17', '\n'.join(scripts[i][:k + 1])))
            continue
        for k, (a, b) in enumerate(zip(res, models[i])):
            ncmp += 1
            kinds[scripts[i][k].split(' ')[0][:12]] = kinds.get(scripts[i][k].split(' ')[0][:12], 0) + 1
            a_cmp = a
            if scripts[i][k] == 'isready':
                a_cmp = 'readyok' if a.startswith('readyok') else a
            if a_cmp != b:
                if not ctx.v.violations:
                    ctx.corr_broken.append({'script_prefix': scripts[i][:k + 1], 'line': scripts[i][k], 'engine_classes': a, 'model_classes': b})
                break
    # commands while a search is running (UCI allows stop, isready, setoption, quit, unrecognised text) + very long line: liveness only
    live = 0
    for t in range(6 if ctx.quick else 100):
        e = uci.Engine()
        e.ready()
        e.send('position startpos')
        e.send('go infinite')
        seq = []
        for _ in range(rng.randint(1, 8)):
            c = rng.choice(['isready', 'setoption name currmoveLogInterval value %d' % rng.choice([10, 0, -5, 100, 99999999]), 'foo bar', '', 'x' * rng.choice([10, 70000]),
                            'isready', 'setoption', 'ucinewgame', 'Stop'])
            seq.append(c if len(c) < 100 else 'x*%d' % len(c))
            e.send(c)
        e.send('stop')
        idx, died = e.read_until(lambda l: l.startswith('bestmove'), 15)
        ok = idx is not None and e.ready(10)
        live += 1
        if not ok:
            ctx.v.violation('engine-crashed-or-wedged', {'script': ['position startpos', 'go infinite'] + seq + ['stop', 'isready'],
                            'observation': 'no bestmove/readyok; alive=%s; stderr=%s' % (e.alive(), e.stderr_text()[-300:])}, signature=sig('c17l', ' '.join(seq)))
        e.close()
    # lines beyond every usual buffer size (1.5 and 4 MB): the session must go on (fed from a thread: a wedged engine stops reading)
    for big in (1500000, 4000000):
        pr = subprocess.Popen([uci.ENGINE], stdin=subprocess.PIPE, stdout=subprocess.PIPE, stderr=subprocess.PIPE)
        got = []

        def rd(pr=pr, got=got):
            for l in pr.stdout:
                got.append(l.decode('latin-1').strip())

        def wr(pr=pr, big=big):
            try:
                pr.stdin.write(b'isready\nposition startpos\n' + b'y' * big + b'\nisready\nperft 1\nquit\n')
                pr.stdin.flush()
            except (BrokenPipeError, OSError, ValueError):
                pass
        for fn in (rd, wr):
            th = threading.Thread(target=fn)
            th.daemon = True
            th.start()
        try:
            rcb = pr.wait(20)
        except subprocess.TimeoutExpired:
            rcb = None
            pr.kill()
            pr.wait()
        time.sleep(0.05)
        live += 1
        if rcb != 0 or got.count('readyok') != 2 or 'total: 20' not in got:
            ctx.v.violation('engine-crashed-or-wedged', {'script': ['isready', 'position startpos', 'y*%d' % big, 'isready', 'perft 1', 'quit'],
                            'observation': 'exit code %s, %d readyok, perft answered: %s' % (rcb, got.count('readyok'), 'total: 20' in got)}, signature=sig('c17big', big))
    return {'evaluations': ncmp + live, 'distinct_nontrivial': len(set('\n'.join(s) for s in scripts)),
            'rule': 'scripts from the command grammar (every keyword with missing, zero, negative, huge, non-numeric argument; options out of range; commands before any position; '
                    'rejected FEN with and without a move list; mate/stalemate roots; junk and near-miss command words) executed line by line on the real binary, each line bracketed by '
                    'isready; output classes compared with the Session model; plus allowed commands during a running search incl. a 70 KB line, and lines of 1.5 and 4 MB between commands; non-trivial = distinct scripts',
            'lines_compared': ncmp, 'first_words': kinds, 'scripts': nscripts, 'scripts_skipped_model_timeout': sum(1 for r in results if r is None), 'in_search_scripts': live, 'traces_validated_against_impl': ncmp,
            'samples': [{'script': scripts[k][:6], 'engine': results[k][0][:6], 'model': models[k][:6]} for k in range(len(scripts)) if results[k]][:2]}


# blocked positions with one or two legal moves per side: iteration 40 is reached in milliseconds
FORTRESSES = ['4b1k1/3p1p1p/3P1P1P/8/8/3p1p1p/3P1P1P/4B1K1 w - - 0 1', '4bk2/3p1p1p/3P1P1P/8/8/3p1p1p/3P1P1P/4BK2 w - - 0 1',
              '4b1k1/3p1p1p/3P1P1P/8/8/3p1p1p/3P1P1P/4B1K1 b - - 0 30']
# blocked positions that reach iteration 40 AND have a protected pawn exchange available at every node: nominal depth 40 plus
# quiescence plies below it (position stack and PV table beyond index 41)
EXCHANGE_FORTRESSES = ['k1b5/1p1p2p1/1P1P2p1/6Pp/6PP/1p1p3P/1P1P4/K1B5 w - - 0 57', 'k1b5/1p1p2p1/1P1P2p1/6Pp/6PP/1p1p3P/1P1P4/K1B5 b - - 0 57']
CAPTURE_HEAVY = ['qqqqkqqq/8/8/8/8/8/8/QQQQKQQQ w - - 0 1', 'rnbqkbnr/8/8/8/8/8/8/RNBQKBNR w - - 0 1', 'k7/8/8/3qrbnp/3QRBNP/8/8/K7 w - - 0 1',
                 'r1b1k2r/pp1n1ppp/2p1pn2/3p2B1/1bPP4/2N1PN2/PPQ2PPP/R3KB1R w KQkq - 0 1', '3rr1k1/ppp2ppp/2n5/3qp3/3Q4/2P1PN2/PP3PPP/3RR1K1 w - - 0 1',
                 'q3k2q/1q4q1/2q2q2/3qq3/3QQ3/2Q2Q2/1Q4Q1/Q3K2Q w - - 0 1']


@check('C18', ['C18.v', 'C18chess.v', 'C18src.v'])
def c18(ctx):
    jobs = []
    # move numbers a GUI can send
    for mn in [1, 2, 175, 176, 177, 349, 350, 351, 1000, 5000, 9999, 15933]:
        for side in 'wb':
            fen = '4k3/8/8/8/8/8/8/4K2R %s K - 0 %d' % (side, mn)
            jobs.append(S.Job(fen, 'go depth 3', tag='movenumber'))
            fen2 = 'r3k2r/p1ppqpb1/bn2pnp1/3PN3/1p2P3/2N2Q1p/PPPBBPPP/R3K2R %s KQkq - 0 %d' % (side, mn)
            jobs.append(S.Job(fen2, 'go depth 2', tag='movenumber'))
    for hm in (100, 101, 120, 149, 150, 500):
        jobs.append(S.Job('4k3/8/8/p1p1p1p1/P1P1P1P1/8/8/4K3 w - - %d 200' % hm, 'go depth 6', tag='movenumber'))
        jobs.append(S.Job('4b1k1/3p1p1p/3P1P1P/8/8/3p1p1p/3P1P1P/4B1K1 b - - %d 300' % hm, 'go depth 12', tag='movenumber'))
    # deepest iterations / unlimited time on blocked positions
    for f in FORTRESSES:
        for go in ['go depth 38', 'go depth 39', 'go depth 40', 'go depth 41', 'go depth 100', 'go depth 100000', 'go wtime 60000 btime 60000', 'go movetime 1500', 'go']:
            jobs.append(S.Job(f, go, tag='fortress', stop_after=2.0 if go == 'go' else None))
    for f in EXCHANGE_FORTRESSES:
        for go in ['go depth 40', 'go depth 100000', 'go wtime 600000 btime 600000']:
            jobs.append(S.Job(f, go, tag='fortress'))
    # long capture sequences below the nominal depth
    for f in CAPTURE_HEAVY:
        for go in ['go depth 1', 'go depth 2', 'go movetime 300']:
            jobs.append(S.Job(f, go, tag='captures'))
    # a game played to its end and searched there (root without legal moves: mate, stalemate), then the next game in the same process
    ends = ['position fen 7k/5Q2/6K1/8/8/8/8/8 b - - 0 1', 'position startpos moves f2f3 e7e5 g2g4 d8h4', 'position fen 7k/6Q1/6K1/8/8/8/8/8 b - - 0 1',
            'position fen k7/P7/K7/8/8/8/8/8 b - - 0 1']
    nxt = ['rnbqkbnr/pppppppp/8/8/8/8/PPPPPPPP/RNBQKBNR w KQkq - 0 1', 'r3k2r/p1ppqpb1/bn2pnp1/3PN3/1p2P3/2N2Q1p/PPPBBPPP/R3K2R w KQkq - 0 1', FORTRESSES[0], CAPTURE_HEAVY[0]]
    k = 0
    for e_ in ends:
        for g_ in (['go depth 3', ('wait',)], ['go movetime 40', ('wait',)], ['go infinite', 'stop', ('wait',)]):
            jobs.append(S.Job(nxt[k % len(nxt)], ['go depth 2', 'go movetime 100', 'go depth 3'][k % 3], history=[e_] + g_, tag='after-finished-game'))
            k += 1
    S.run_jobs(jobs, workers=8, per_job_timeout=120)
    # long games: hundreds of plies through `position startpos moves ...`, then search and perft
    rc, out, err, st = harness(['longgames', str(6 if ctx.quick else 120)], timeout=3000)
    long_rows = [l.split('\t') for l in out.strip().split('\n') if l]
    for r in long_rows:
        if r[0] != 'ok':
            ctx.v.violation('long-game-breaks-the-engine', {'plies': r[1], 'observation': r[0], 'position_command': r[2][:3000]}, signature=sig('c18g', r[2][:500]))
    req, meta = [], []
    for j in jobs:
        p = uci.parse_search_output(j.lines or [])
        if j.died or j.timeout or len(p['bestmove']) != 1:
            ctx.v.violation('capacity-exhausted', {'fen': j.fen, 'go': j.go, 'class': j.tag, 'died': j.died, 'timed_out': j.timeout, 'bestmove_lines': p['bestmove'],
                            'stderr': j.stderr[-600:], 'last_lines': (j.lines or [])[-3:]}, signature=sig('c18', j.fen, j.go))
            continue
        req.append((j.fen, [p['bestmove'][0]]))
        meta.append(j)
    for j, r in zip(meta, S.lines_legal(req)):
        if r != -1:
            ctx.v.violation('illegal-move-at-capacity', {'fen': j.fen, 'go': j.go, 'lines': j.lines[-3:]}, signature=sig('c18l', j.fen, j.go))
    # width: positions with 61..218 legal moves (per-ply move buffers), perft walks and searches
    wide = wide_stream(ctx, 'w18')
    wide.update(wide_search(ctx))
    deepest = 0
    for j in jobs:
        for l in (j.lines or []):
            m = re.match(r'info depth (\d+)', l)
            if m:
                deepest = max(deepest, int(m.group(1)))
    return {'evaluations': len(jobs) + len(long_rows) + wide['commands'] + wide['searches'], 'wide': wide,
            'distinct_nontrivial': len(set((j.fen, j.go) for j in jobs)) + len(long_rows),
            'rule': 'stress inputs: FEN move numbers 1..15933 (both sides) with go/perft; blocked positions with go depth 38..100000, clock-based and bare go (iteration 40 is reached '
                    'in milliseconds); capture-heavy positions; a search on a finished game (mate/stalemate root) followed by the next game in the same process; games of several hundred plies through `position startpos moves ...` followed by go and perft; observable = process '
                    'alive, exactly one legal bestmove; non-trivial = distinct inputs',
            'deepest_iteration_reported': deepest, 'long_games': len(long_rows), 'classes': {t: sum(1 for j in jobs if j.tag == t) for t in ('movenumber', 'fortress', 'captures', 'after-finished-game')},
            'traces_validated_against_impl': len(jobs) + len(long_rows),
            'samples': [{'fen': j.fen, 'go': j.go, 'last': (j.lines or [])[-1:]} for j in jobs[:2] + jobs[-2:]]}


@check('C19', ['C19.v'])
def c19(ctx):
    n = 40 if ctx.quick else 600
    rng = ctx.rng
    trials = []
    for i in range(n):
        pre = []
        state = rng.choice(['rest', 'rest-pos', 'searching', 'just-go', 'after-search', 'perft', 'terminal-root-go', 'terminal-root-go', 'stopped-search', 'isready-then'])
        if state == 'terminal-root-go':
            pre.append(rng.choice(['position fen 7k/5Q2/6K1/8/8/8/8/8 b - - 0 1', 'position startpos moves f2f3 e7e5 g2g4 d8h4',
                                   'position fen 7k/6Q1/6K1/8/8/8/8/8 b - - 0 1']))
            pre.append(rng.choice(['go depth 5', 'go movetime 200', 'go wtime 60000 btime 60000', 'go infinite']))
        elif state != 'rest':
            pre.append('position startpos moves e2e4')
        if state == 'stopped-search':
            pre += ['go infinite', 'stop']
        if state == 'isready-then':
            pre += ['isready', 'go depth 3', 'isready']
        if state == 'searching':
            pre.append('go infinite')
        elif state == 'just-go':
            pre.append('go depth 30')
        elif state == 'after-search':
            pre.append('go depth 2')
        elif state == 'perft':
            pre.append('perft 3')
        end = rng.choice(['quit', 'eof', 'quit', 'eof', 'quit-crlf'])          # quit-crlf: every line ends with CR LF, as GUIs on Windows send them
        delay = rng.choice([0.0, 0.0, 0.05, 0.3]) if state in ('searching', 'after-search', 'terminal-root-go', 'stopped-search', 'isready-then') else 0.0
        trials.append((state, pre, end, delay))
    # `quit` behind stop sequences while the search thread is held at a phase (in-process, sync hooks): the command thread must get
    # through every command and reach the quit (it sets the flag the read loop tests)
    kiwi = 'r3k2r/p1ppqpb1/bn2pnp1/3PN3/1p2P3/2N2Q1p/PPPBBPPP/R3K2R w KQkq - 0 1'
    held = 0
    for (pt, a, b) in ((1, 0, 0), (2, 1, 0), (2, 2, 1), (3, 2, 0), (6, 2, 0), (4, 0, 0)):
        for cmds in (['stop', 'stop', 'quit'], ['stop', 'isready', 'stop', 'stop', 'quit'], ['isready', 'quit']):
            gocmd = 'go infinite' if pt != 4 else 'go depth 2'
            rc, out, err, _ = harness(['sched1', kiwi, gocmd, str(pt), str(a), str(b), '0'] + cmds, timeout=120)
            held += 1
            row = None
            for l in out.split('\n'):
                if l.strip().startswith('{'):
                    try:
                        row = json.loads(l)
                    except ValueError:
                        pass
            if row is None:
                continue          # the harness died: reported through HARNESS_DEATHS
            if row['blocked'] or not row.get('quit_flag'):
                ctx.v.violation('quit-not-reached-behind-stop-sequence', {'fen': kiwi, 'go': gocmd, 'search_thread_held_at': row['at'], 'commands': cmds,
                                'blocked_commands': row['blocked'], 'quit_handled': row.get('quit_flag'),
                                'how': 'verifh sched1 "%s" "%s" %d %d %d 0 %s' % (kiwi, gocmd, pt, a, b, ' '.join(cmds))}, signature=sig('c19held', pt, a, b, ' '.join(cmds)))
    # very long input lines (legal move lists of 1.2 and 3 MB, a junk line of 2 MB, also while a search runs), then quit / EOF
    shuffle_line = 'position startpos moves ' + ' '.join(['g1f3 g8f6 f3g1 f6g8'] * 60000)
    for end in ('quit', 'eof'):
        # a GUI that skips the stop: a new position (and a go) arrive while the search is still running, then the session ends
        trials.append(('position-while-searching', ['position startpos', 'go infinite', ('sleep', 0.3), 'position startpos moves e2e4 e7e5'], end, 0.0))
        trials.append(('position-while-searching', ['position startpos', 'go depth 30', ('sleep', 0.2), 'position fen 4k3/8/8/8/8/8/8/4K2R w K - 0 1', 'isready'], end, 0.05))
        trials.append(('huge-line', [shuffle_line, 'isready'], end, 0.0))
        trials.append(('one-ply-search-that-runs-for-minutes', ['position fen qqqqkqqq/qqqqqqqq/8/8/8/8/QQQQQQQQ/QQQQKQQQ w - - 0 1', 'go depth 1', ('sleep', 0.3)], end, 0.0))
        trials.append(('huge-line-while-searching', ['position startpos', 'go infinite', 'x' * 2000000, 'isready'], end, 0.0))
    trials.append(('huge-line', ['position startpos moves ' + ' '.join(['g1f3 g8f6 f3g1 f6g8'] * 150000)], 'quit', 0.0))
    trials.append(('rest', [], 'quit-crlf', 0.0))
    trials.append(('searching', ['position startpos', 'go infinite'], 'quit-crlf', 0.05))
    trials.append(('after-search', ['position startpos moves e2e4', 'go depth 2'], 'quit-crlf', 0.3))
    bad = 0
    samples = []
    for state, pre, end, delay in trials:
        p = subprocess.Popen([uci.ENGINE], stdin=subprocess.PIPE, stdout=subprocess.PIPE, stderr=subprocess.PIPE)
        try:
            # drain stdout so that the engine never blocks on a full pipe
            thr = threading.Thread(target=lambda: p.stdout.read())
            thr.daemon = True
            thr.start()
            tbox = [time.time()]

            def feed():
                # from a thread: an engine that stops reading must not block the check
                try:
                    for l in pre:
                        if isinstance(l, tuple):
                            p.stdin.flush()
                            time.sleep(l[1])
                        else:
                            p.stdin.write((l + ('\r\n' if end == 'quit-crlf' else '\n')).encode())
                    p.stdin.flush()
                    if delay:
                        time.sleep(delay)
                    tbox[0] = time.time()
                    if end in ('quit', 'quit-crlf'):
                        p.stdin.write(b'quit\n' if end == 'quit' else b'quit\r\n')
                        p.stdin.flush()
                    else:
                        p.stdin.close()
                except (BrokenPipeError, OSError, ValueError):
                    pass
            fth = threading.Thread(target=feed)
            fth.daemon = True
            fth.start()
            fth.join(10 if state.startswith('huge') else 3)
            t = tbox[0]
            try:
                rc = p.wait(6 + (4 if state == 'perft' else 0) + (6 if state.startswith('huge') else 0))
                el = time.time() - t
            except subprocess.TimeoutExpired:
                rc = None
                el = time.time() - t
        finally:
            if p.poll() is None:
                p.kill()
                p.wait()
        pre = [('sleep %.1f s' % l[1]) if isinstance(l, tuple) else (l if len(l) < 300 else l[:120] + ' ... (%d bytes)' % len(l)) for l in pre]
        samples.append({'state': state, 'script': pre, 'end': end, 'exit_code': rc, 'seconds': round(el, 3)})
        if rc is None or rc != 0:
            bad += 1
            ctx.v.violation('engine-does-not-terminate', {'state': state, 'script': pre, 'ended_by': end, 'exit_code': rc, 'waited_s': round(el, 2),
                            'how': 'feed the script, then %s' % ('send quit' if end == 'quit' else 'send quit, every line ended by CR LF' if end == 'quit-crlf' else 'close stdin')}, signature=sig('c19', state, end))
    ctx.assumptions.append('OS pipe semantics and process teardown are observed, not modelled (label: partial)')
    return {'evaluations': len(trials) + held, 'distinct_nontrivial': len(set((s, e) for s, _, e, _ in trials)), 'held_stop_quit_schedules': held,
            'rule': 'child processes in the states {at rest, position set, searching, right after go, after a finished search, after perft} ended by `quit` (lines ended by LF or by CR LF) or by closing stdin; '
                    'must exit with status 0 within 3 s; non-trivial = distinct (state, ending)',
            'traces_validated_against_impl': len(trials), 'samples': samples[:4], 'partial': ['process teardown is observed only']}


# ---- SUCC stream: every legal move of many positions (incl. corner-capture templates): successor snapshot and successor legal set

def succ_stream(ctx, name):
    games, synth = (12, 250) if ctx.quick else (600, 20000)
    cases, impl, model, model_raw, notes, stats = line_stream(ctx, 'succ', name, [games, synth])
    bad = []           # (fen, move, what, impl, model)
    nmoves = 0
    for c, a, b in zip(cases, impl, model):
        fen = c.split('\t', 1)[1]
        if not a.startswith('OK|') or not b.startswith('OK|'):
            if a != b:
                bad.append((fen, None, 'status', a[:200], b[:200]))
            continue
        ra = dict((x.split(':', 1)[0], x.split(':')[1:]) for x in a[3:].split())
        rb = dict((x.split(':', 1)[0], x.split(':')[1:]) for x in b[3:].split())
        nmoves += len(ra)
        if set(ra) != set(rb):
            bad.append((fen, None, 'legal-set', ' '.join(sorted(ra)), ' '.join(sorted(rb))))
            continue
        for m in ra:
            if 'BOOKKEEPING' in ra[m]:
                bad.append((fen, m, 'bookkeeping', ra[m], rb[m]))
                continue
            if ra[m][0] != rb[m][0]:
                bad.append((fen, m, 'snapshot', ra[m], rb[m]))
            if ra[m][1:2] != rb[m][1:2]:
                bad.append((fen, m, 'successor-legal-set', ra[m], rb[m]))
            if 'NOTWF' in rb[m]:
                bad.append((fen, m, 'model-not-wf', ra[m], rb[m]))
    return cases, bad, nmoves


def succ_detail(fen, move):
    """full snapshots and legal sets after fen + move, engine and model"""
    open(RUN + '/one.game', 'w').write('%s\t%s\n' % (fen, move))
    rc, out, err, _ = harness(['game1', RUN + '/one.game'])
    impl = out.strip().split('\n')[0] if out.strip() else ''
    model = run_oracle(['GAME\t%s\t%s' % (fen, move)])[0]
    return impl.split('|')[-1][:400], model.split('|')[-1][:400]



# ---------------------------------------------------------------- generic replays

def replay_generic(ctx, data):
    d = data['data']
    print(json.dumps(d, indent=1)[:3000])
    kind = data.get('kind', '')
    if 'search_thread_held_at' in d:          # a schedule (C11 / C12)
        m = re.match(r'(\w[\w-]*)(?:\(d=(\d+),k=(\d+)\)|\((\d+)\))?', d['search_thread_held_at'])
        name = m.group(1)
        point = {'entered': 1, 'rootmove': 2, 'iteration-done': 3, 'before-bestmove': 4, 'after-bestmove': 5, 'inside-rootmove': 6}[name]
        a = int(m.group(2) or m.group(4) or 0)
        b = int(m.group(3) or 0)
        rc, out, err, _ = harness(['sched1', d['fen'], d['go'], str(point), str(a), str(b), str(d.get('hold_ms', 0))] + list(d.get('commands_issued_there', [])))
        print(out[:3000])
        return True
    if 'script' in d and isinstance(d['script'], list) and ctx.pid == 'C17':
        script = d['script']
        model = [strip_log(x) for x in run_oracle(['SESS\t' + '\n'.join(script).encode('latin-1', 'replace').hex()])[0].split(';')]
        res, problem = L.run_script(script, model)
        print('engine:', res, '\nmodel :', model, '\nproblem:', problem)
        return problem is not None or res != model[:len(res)]
    if 'fen_hex' in d:                         # C08
        rc, out, err, _ = harness(['fen1', d['fen_hex']])
        model = run_oracle(['FEN\t' + d['fen_hex']])[0]
        print('engine:', out.strip()[:300], '\nmodel :', model[:300])
        return out.strip().split('|')[0][:3] != canon_model(model).split('|')[0][:3] or (out.strip().startswith('OK') and out.strip() != model)
    if 'fen' in d and 'go' in d:
        j = S.run_jobs([S.Job(d['fen'], d['go'], stop_after=d.get('stop_after_s'))], per_job_timeout=60)[0]
        print('\n'.join((j.lines or [])[-12:]), '\ndied:', j.died, 'timeout:', j.timeout, j.stderr[-400:])
        return j.died or j.timeout
    return True


for _p in ('C07', 'C08', 'C11', 'C12', 'C16', 'C17', 'C18', 'C19'):
    REPLAYS.setdefault(_p, replay_generic)
