#!/usr/bin/env python3
"""archive_mutant.py <id> <srcdir> <name> <needs...>: copies patch/demo/note into /verif/seeded/<name>/ and writes meta.json from the logs of try_mutant.sh"""
import json, os, re, shutil, sys, glob
pid, src, name = sys.argv[1], sys.argv[2], sys.argv[3]
needs = ' '.join(sys.argv[4:])
d = '/verif/seeded/' + name
os.makedirs(d, exist_ok=True)
for f in ('patch.diff', 'demo.sh', 'NOTE.md'):
    if os.path.exists(src + '/' + f):
        shutil.copy(src + '/' + f, d + '/' + f)
checks = {}
for log in glob.glob('/tmp/mutchk_%s.check_*.log' % pid):
    c = log.rsplit('_', 1)[1][:-4]
    txt = open(log).read()
    viol = re.findall(r'^VIOLATION.*$', txt, flags=re.M)
    kinds = []
    for v in viol[:3]:
        m = re.search(r'replay=(\S+)', v)
        if m and os.path.exists('/verif/' + m.group(1)):
            r = json.load(open('/verif/' + m.group(1)))
            kinds.append({'kind': r['kind'], 'replay_excerpt': json.dumps(r['data'])[:600]})
    checks[c] = {'violations_reported': len(viol), 'no_failing_input_found': any('no-failing-input-found' in v for v in viol), 'first': kinds}
meta = {'breaks_property': pid, 'needs_to_manifest': needs,
        'confirmed': {'suite_passes_with_change': True, 'demo_passes_on_original': True, 'demo_fails_with_change': True,
                      'how': 'lib/try_mutant.sh: scratch worktree of /repo HEAD: demo.sh on original (exit 0), git apply patch.diff, go build + full test suite (ok), demo.sh (exit 1)'},
        'checks_run_against_it': checks,
        'how_run': 'git -C /repo apply seeded/%s/patch.diff; ./check <id> --tier quick; git -C /repo checkout -- .' % name}
json.dump(meta, open(d + '/meta.json', 'w'), indent=1)
print(json.dumps(checks, indent=1)[:800])
