#!/usr/bin/env python3
"""Regenerates /verif/MANIFEST.json from the table below (kept here so that it stays consistent with lib/props.py)."""
import json, sys
sys.path.insert(0, '/verif/lib')

CORR = ' Tie to /repo: Generated.v (tables, constants) regenerated from the built engine on every run; the hand-written model is executed against the engine on the stream named in technique; a broken theorem or a model/engine disagreement is re-judged against the property itself and reported with the failing input (or no-failing-input-found).'
TB = 'Trusted: Coq 8.16.1 kernel (+vm_compute), extraction (ExtrOcamlBasic only), the Go harness/hooks (tag verif), the OCaml oracle driver and the Python driver; the engine logic is modelled by hand (coq/*.v follow engine/*.go), only data is regenerated. '
CLAIMS = {
    'C03': ('Coq theorems over the search state machine (all oracle streams = all stop/clock timings, all orderings) + real-engine go forms with stops',
            'C03_one_bestmove / C03_bestmove_legal: for EVERY stop timing, clock behaviour, move ordering and logging interval the search model (SearchImp.iterate_i, mirrors search.go incl. position stack, PV hand-over, interruption flag) emits exactly one bestmove, a legal root move and head of the last printed PV (0000 exactly when the root has no move).' + CORR,
            TB + 'Hypotheses of the theorems: ordering returns a permutation; tactical moves are legal moves (C06). The Go scheduler/wall clock is abstracted by the oracle streams.', '6/C03'),
    'C04': ('Coq theorems alpha-beta = minimax (L1 and state machine) + engine scores vs extracted model search vs plain minimax',
            'C04_alpha_beta / C04_quiescence / C04_root_value / C04_state_machine*: fail-hard alpha-beta with lazy evaluation, ANY move ordering (killers, PV bonus, unstable sort) returns exactly the minimax value of the depth-d tree under the full evaluation whenever no quiescence node is lazy-sensitive (the admitted deviation; decidable by minimax_s), for every window inside [-Inf, Inf]; values never leave the window.' + CORR,
            TB + 'The search theorems treat move generation/evaluation as given functions (their exactness is C01/C02/C06/C15). Engine scores are compared on sampled positions to depth 1-4.', '6/C04'),
    'C07': ('Kernel-evaluated sweep of all 64x64x5 move strings (theorem) + position commands in all forms against model and engine-internal replay',
            'C07_roundtrip*: every printable move parses back to itself (lower case, upper-case promotion suffix, fully upper case): complete finite domain decided by vm_compute and lifted to a universal statement. The `position` replay part is decided by the correspondence: startpos / bare FEN / fen-keyword commands with whole games and prefixes must give the snapshot obtained by playing the moves (engine vs engine) and the model\'s.' + CORR,
            TB + 'The theorem that `position` = fold of the rules\' apply follows from C02 (make_spec) + C08; it is not yet stated as one theorem.', '6/C07'),
    'C08': ('Coq theorems parse_fen total and sound (all strings) + FEN stream (valid, variants, mutations, junk) against the engine',
            'C08_total: no string makes the loader panic (every board index and list append is guarded); C08_sound: every accepted string yields a well-formed position (lists = board, one king each, capacities incl. room for promotions, no back-rank pawns, consistent castling/ep fields, ply in range, side not to move not in check). Both for ALL strings.' + CORR,
            TB + 'Faithfulness for valid FENs is decided by the differential stream (engine snapshot = model snapshot); a rejected FEN leaving the position unchanged is checked through the command interpreter.', '6/C08'),
    'C09': ('Coq theorems isUnderCheck = geometry for every board + exhaustive single-attacker enumeration (2.9M cases) + positions',
            'C09_piece/pawn/king/under_check: on ANY board, with lists that agree with the board, the engine\'s attack test equals the rules\' geometry (sliders blocked by any piece in between, knights/kings/pawns not, pawns by colour, nothing across the edge); proved from kernel sweeps over the regenerated attack/direction tables (64x64) plus generic ray lemmas.' + CORR,
            TB + 'The complete enumeration of the property\'s quantifier (12 attackers x from x to x no/one blocker) runs on every check through the hook against model and Spec.', '6/C09'),
    'C10': ('Coq theorems on the search state machine (every oracle) + replay of every printed PV of real searches',
            'C10_all_output_wellformed etc.: every info line the search prints (mid-iteration ones included) carries a non-empty line that is legal move by move from the root, currmove lines name a legal root move with its 1-based number, bestmove is the head of the last PV line; for all stop/clock timings and orderings; a stale PV row read is a model panic, excluded by the theorems.' + CORR,
            TB + 'PVs are modelled functionally (option line per node, None = row never written) rather than as the shared triangular slices; aliasing bugs in the slices are covered by the replay of real output only.', '6/C10'),
    'C11': ('Coq theorems (no-leak + determinism of completed iterations) + sync-hook schedules: stop/deadline after every root move of every iteration',
            'C11_no_leak: the move played is the head of the line of the newest completed iteration that passed both the deadline and the interruption test (else of the depth-1 iteration); C11_*deterministic: a completed iteration does not depend on unconsumed oracle values, so it equals the iteration of `go depth D`.' + CORR,
            TB + 'Schedules place the interruption deterministically through verifSync; wall-clock stops are sampled.', '6/C11'),
    'C12': ('Coq invariants of a two-thread transition system (every interleaving) + sync-hook schedule lattice + race detector (thorough)',
            'C12_*: over every reachable state of the command-thread/search-thread LTS at shared-operation granularity: the command thread never blocks, a stop seen by a running search is in the channel until polled, exactly one bestmove per go, isready always answered and transparent, no stale token reaches a later search, bounded work after the stop; the pre-fix protocol is refuted by three concrete schedules.' + CORR,
            TB + 'Partial: sequentially consistent interleaving of shared operations; the Go memory model/scheduler is not modelled (the shared accesses are an atomic.Bool and channel operations; -race run in the thorough tier).', '6/C12'),
    'C13': ('Coq theorems (lia) on the allotment formula + exhaustive boundary-lattice correspondence through the real `go` command',
            'C13_value/mover_clock/bounds/mono_left/mono_inc/anti_mtg/movetime/clock_deadline/parsed_mtg/no_panic hold for ALL integers in the stated range; the model (Uci.v) is executed against the built engine on 462k `go` commands (complete lattice + random/malformed argument lists).' + CORR,
            TB + 'Partial: wall-clock honouring of the deadline is sampled (validation).', '6/C13'),
    'C15': ('Coq equivariance proof of the whole evaluation under colour flip + list-order independence + mirrored position pairs on the engine',
            'C15_mirror / C15_symmetric / C15_list_order: for every well-formed position the colour-flipped position evaluates identically (material, piece-square tables incl. the binary64 king taper with identical arguments, own and opponent mobility with the king-capture and start-rank-ep quirks), and the value does not depend on piece-list order; from kernel sweeps over the regenerated tables + equivariance of is_under_check/make/count_moves.' + CORR,
            TB + 'IEEE binary64 modelled with Coq SpecFloat; no float reasoning needed for symmetry.', '6/C15'),
    'C16': ('Coq stack-discipline theorems for every oracle + in-process query sequences with snapshots',
            'C16_go_leaves_the_stack etc.: every push is popped on every exit path (cut-off, interruption, deadline) and the evaluation\'s turn-flag flip is undone, for all oracles/orderings; perft/eval are modelled functionally. The engine is checked after every query command of random sequences (stack index 0, snapshot unchanged, same probe search).' + CORR,
            TB, '6/C16'),
    'C18': ('Coq capacity theorem (PV rows, stack, quiescence fuel) for every oracle + stress inputs on the engine',
            'C18_no_capacity_panic: with tactical moves decreasing a measure (<= 46) and depth <= 40 the search never indexes the PV table, the position stack or runs out of quiescence fuel: 40 + 46 + 1 < 88 rows < 200 slots. Engine: move numbers up to the loader\'s limit, iteration 40 on blocked positions, capture-heavy positions, games of 300-700 plies.' + CORR,
            TB + 'The measure hypotheses (captures/promotions decrease men+pawns) are stated as premises; killer-table slot arithmetic is total by construction (uint16 mod 350).', '6/C18'),
    'C19': ('Coq theorems on the read loop (any input, any search) + child processes ended by quit/EOF in every state',
            'C19_terminates/eof/quit: the read loop ends after at most one iteration per input line plus one, at once on end of input, and at `quit` without reading further, for every input and every search; the pre-fix loop (ignoring Scan) is the recorded finding.' + CORR,
            TB + 'Partial: OS pipe semantics and process teardown are observed, not modelled.', '6/C19'),
}

ALL = ['C%02d' % i for i in range(1, 20)]

BASELINE = ("cd /repo && export GOFLAGS=-mod=mod GOPROXY=off GOSUMDB=off GOTOOLCHAIN=local && go build ./... && "
            "go test -vet=off -count=1 -timeout 25m ./...")


def main():
    checks = []
    for pid in ALL:
        if pid not in CLAIMS:
            continue
        tech, text, note, ref = CLAIMS[pid]
        checks.append({
            'property_id': pid,
            'quick_cmd': './check %s --tier quick' % pid,
            'thorough_cmd': './check %s --tier thorough' % pid,
            'evidence_file': '/verif/evidence/%s.json' % pid,
            'replay_cmd_template': './check %s --replay {path}' % pid,
            'engine': 'coq-model+correspondence',
            'level_claimed': {'category': 'proof', 'text': text, 'design_ref': 'DESIGN.md section ' + ref},
            'level_note': note,
            'technique': tech,
        })
    na = [{'property_id': p, 'reason': 'check under construction in this session; will be claimed once its model runs in the correspondence'}
          for p in ALL if p not in CLAIMS]
    m = {
        'version': 1,
        'setup_cmd': './check --setup',
        'hooks': {'guard': 'verif', 'enable': 'go build -tags verif (harness module /verif/harness with replace macsmol/magog => /repo)',
                  'baseline_off_cmd': BASELINE,
                  'source_commits': ['e39a3fe','77c86f9','f061b3c'], 'add_only': True},
        'engines': [{'name': 'coq-model+correspondence', 'path': '/verif/coq', 'serves_properties': sorted(CLAIMS),
                     'kind_free_text': 'Coq 8.16.1 development (model + theorems), extracted OCaml oracle, Go harness (tag verif), Python driver ./check'}],
        'checks': checks,
        'not_applicable': na,
        'notes': 'Every check rebuilds the harness and the engine from /repo, regenerates coq/Generated.v from the built code, runs a full '
                 '`make` of the Coq development, re-checks the property theorems with coqc, then runs the correspondence streams.',
    }
    json.dump(m, open('/verif/MANIFEST.json', 'w'), indent=1)


if __name__ == '__main__':
    main()
