#!/usr/bin/env python3
"""Regenerates /verif/MANIFEST.json from the table below (kept here so that it stays consistent with lib/props.py)."""
import json, sys
sys.path.insert(0, '/verif/lib')

CORR = ' Tie to /repo: Generated.v (tables, constants) regenerated from the built engine on every run; the hand-written model is executed against the engine on the stream named in technique; a broken theorem or a model/engine disagreement is re-judged against the property itself and reported with the failing input (or no-failing-input-found).'
TB = 'Trusted: Coq 8.16.1 kernel (+vm_compute), extraction (ExtrOcamlBasic only), the Go harness/hooks (tag verif), the OCaml oracle driver and the Python driver; the engine logic is modelled by hand (coq/*.v follow engine/*.go), only data is regenerated. '
CLAIMS = {
    'C01': ('Coq theorem gen_legal = Spec.legal (set equality, NoDup) for every well-formed position + POS/SUCC/WIDE streams vs Spec oracle and model',
            'C01_movegen_exact: for EVERY well-formed position with the side not to move not in check (established by the FEN loader, C08_sound, and preserved by every move, C02) the generator does not panic and lists exactly the legal moves of the rules (Spec.v), each once; castling conditions = Spec.castle_ok; the king pre-filter removes nothing legal; no generated move iff no legal move. Proof: geometry sweeps over the regenerated tables + generic ray/list lemmas + make_spec (C02) + is_under_check_spec (C09).' + CORR,
            TB + 'The Spec is validated against the engine on every run (sampled positions: move sets must be equal) and reproduces published perft numbers.', '6/C01'),
    'C02': ('Coq theorem make refines Spec.apply and preserves well-formedness (all move classes) + GAME stream (snapshots after every ply, push/pop, bijection)',
            'C02_make_refines: on every well-formed position and every rule-conforming move MakeMove never panics, yields exactly the rules\' position (placement, side, castling rights, ep target, ply), keeps lists = board and all capacities, and its verdict is the rules\' king-safety test; C02_generated_moves_ok; C02_game: any legal move sequence through the `position ... moves` path keeps the position well formed. Un-make: in the model a pop drops the pushed copy (stack discipline C16); on the engine every ply is pushed, compared with ApplyUciMove, popped and compared with the snapshot before.' + CORR,
            TB + 'Stale tails of the piece-list arrays are not modelled (unobservable); bit-for-bit equality after pop is checked on the engine by snapshot.', '6/C02'),
    'C03': ('Coq theorems over the search state machine (all oracle streams = all stop/clock timings, all orderings) + real-engine go forms with stops',
            'C03_one_bestmove / C03_bestmove_legal: for EVERY stop timing, clock behaviour, move ordering and logging interval the search model (SearchImp.iterate_i, mirrors search.go incl. position stack, PV hand-over, interruption flag) emits exactly one bestmove, a legal root move and head of the last printed PV (0000 exactly when the root has no move). Chess level (C03chess.v, C03total.v): on every well-formed legal position, depth <= 40, the search RETURNS (never panics, SearchTotal.engine_search_total) and has printed exactly one bestmove that is legal by the rules of chess (Spec.legal), or 0000 exactly when the rules give no legal move.' + CORR,
            TB + 'Only hypothesis left: the move ordering returns a permutation of the list it is given (Go sort + ranking bonuses). The Go scheduler/wall clock is abstracted by the oracle streams.', '6/C03'),
    'C04': ('Coq theorems alpha-beta = minimax (L1 and state machine) + engine scores vs extracted model search vs plain minimax',
            'C04_alpha_beta / C04_quiescence / C04_root_value / C04_state_machine*: fail-hard alpha-beta with lazy evaluation, ANY move ordering (killers, PV bonus, unstable sort) returns exactly the minimax value of the depth-d tree under the full evaluation whenever no quiescence node is lazy-sensitive (the admitted deviation; decidable by minimax_s), for every window inside [-Inf, Inf]; values never leave the window. C04chess.v: the numeric premises (mate-in-one bound, value above -Infinity) are discharged on every well-formed legal position from the proved value range of minimax.' + CORR,
            TB + 'The search theorems treat move generation/evaluation as given functions (their exactness is C01/C02/C06/C15). Engine scores are compared on sampled positions to depth 1-4; disagreements with the model search are refereed by plain minimax over the legal generator with the material-changing subset decided from the board (not by the tactical generator under test).', '6/C04'),
    'C05': ('Coq theorems: score formatting arithmetic, terminal classification = rules, evaluation band (incl. a kernel sweep of the binary64 taper) + mate solver vs engine',
            'C05_format_win/loss/cp, C05_plies_to_mate: mate distance arithmetic of the printed score for all n; C05_terminal_mate_iff_check + C05_in_check_is_the_rules: a position without moves is mate exactly when the side to move is in check by the rules; C05_band: for every well-formed non-checkmate position |evaluation| < ScoreCloseToMate (material bound from the capacities, table bounds, the SpecFloat taper swept over all 2701 reachable material sums x all king-table pairs, mobility <= 420), hence always printed as cp. C05mate.v (MateProofs): C05_mate_found: a forced mate of the rules (Spec.mate_score) within the full-width depth is valued with exactly its length; C05_mate_real: every value of the depth-d reference is either inside the band with no forced mate within d by the rules, or a mate value whose length is the rules\' forced mate (at most d+1: quiescence sees a capture that mates); C05_reference_total: the reference never panics. With C04 (engine value = reference value) this is the property. Engine: AND/OR mate solver over the model generator on sparse positions vs `go depth d`.' + CORR,
            TB + 'Found/real mate is proved for the reference minimax; its transfer to the engine score goes through C04 (whose admitted lazy deviation applies).', '6/C05'),
    'C06': ('Coq theorems: tactical list / flags / both counters / perft for every depth = rules + POS stream vs Spec, perft and tperft commands vs model',
            'C06_tactical_exact, C06_tactical_is_filter, C06_flag_exact, C06_count_moves, C06_count_tactical, C06_perft: for every well-formed position the quiescence move list is exactly the legal moves that capture (incl. en passant) or promote, the tactical flag is exact, countMoves/countTacticalMoves equal the generated list lengths (king pre-filter, unchecked castling count and the start-rank ep patch are shown harmless), and perft n = number of legal move paths of the rules for EVERY n.' + CORR,
            TB + 'tperft divide and the int64 range of the counters are covered by the correspondence only.', '6/C06'),
    'C07': ('Kernel-evaluated sweep of all 64x64x5 move strings (theorem) + position commands in all forms against model and engine-internal replay',
            'C07_roundtrip*: every printable move parses back to itself (lower case, upper-case promotion suffix, fully upper case): complete finite domain decided by vm_compute and lifted to a universal statement. C07pos.v (PositionProofs): C07_position_line / C07_position_by_the_rules: for every input line routed to the position handler (startpos, bare FEN, fen keyword), a move list legal by the rules is accepted and the resulting position is exactly the fold of the rules\' Spec.apply over the moves from the start (pos_equiv: board, turn, rights, ep, ply), killer table cleared; C07_startpos: the initial position is a legal position of the rules with 20/400/8902 paths. Engine: position commands in all forms with whole games and prefixes must give the snapshot obtained by playing the moves (engine vs engine) and the model\'s.' + CORR,
            TB + 'That the loader builds the placement the FEN text denotes is decided by the FEN stream (C08), not by a theorem.', '6/C07'),
    'C08': ('Coq theorems parse_fen total and sound (all strings) and faithful (round trip from every legal position) + FEN stream (valid, variants, mutations, overflow ranks, junk) against the engine',
            'C08_total: no string makes the loader panic (every board index and list append is guarded); C08_sound: every accepted string yields a well-formed position (lists = board, one king each, capacities incl. room for promotions, no back-rank pawns, consistent castling/ep fields, ply in range, side not to move not in check). Both for ALL strings. C08rt.v (FenRoundtrip): C08_faithful / C08_every_legal_position_accepted: every legal position of the rules (Spec.legal_position), printed as a FEN by a printer defined on the rules\' side (six fields, canonical digit compression), with any halfmove clock up to 2^63-1 and move number 1..15933, is accepted and loaded as exactly that position (the 64 squares, side, rights, ep, ply): no legal position is ever rejected.' + CORR,
            TB + 'Faithfulness is proved for the canonical FEN text of every legal position; other spellings of the same position (digit runs split differently, castling letters in another order) and a rejected FEN leaving the position unchanged are decided by the differential stream and the command interpreter.', '6/C08'),
    'C09': ('Coq theorems isUnderCheck = geometry for every board + exhaustive single-attacker enumeration (2.9M cases) + positions',
            'C09_piece/pawn/king/under_check: on ANY board, with lists that agree with the board, the engine\'s attack test equals the rules\' geometry (sliders blocked by any piece in between, knights/kings/pawns not, pawns by colour, nothing across the edge); proved from kernel sweeps over the regenerated attack/direction tables (64x64) plus generic ray lemmas; C09src.v: the table index moveIndex is translated from the SOURCE TEXT on every run and proved equal to the model\'s move_index for all byte-sized squares; positions in check are also asked right after a twin with a shielding piece added (answers must not depend on the previous question).' + CORR,
            TB + 'The complete enumeration of the property\'s quantifier (12 attackers x from x to x no/one blocker) runs on every check through the hook against model and Spec.', '6/C09'),
    'C10': ('Coq theorems on the search state machine (every oracle) + replay of every printed PV of real searches',
            'C10_all_output_wellformed etc.: every info line the search prints (mid-iteration ones included) carries a non-empty line that is legal move by move from the root, currmove lines name a legal root move with its 1-based number, bestmove is the head of the last PV line; for all stop/clock timings and orderings; a stale PV row read is a model panic, excluded by the theorems.' + CORR,
            TB + 'PVs are modelled functionally (option line per node, None = row never written) rather than as the shared triangular slices; aliasing bugs in the slices are covered by the replay of real output only.', '6/C10'),
    'C11': ('Coq theorems (no-leak + determinism of completed iterations) + sync-hook schedules: stop/deadline after every root move of every iteration',
            'C11_no_leak: the move played is the head of the line of the newest completed iteration that passed both the deadline and the interruption test (else of the depth-1 iteration); C11_*deterministic: a completed iteration does not depend on unconsumed oracle values, so it equals the iteration of `go depth D`.' + CORR,
            TB + 'Schedules place the interruption deterministically through verifSync; wall-clock stops are sampled.', '6/C11'),
    'C12': ('Coq invariants of a two-thread transition system (every interleaving) + work-per-poll/latency theorems on the search model + PROTO state-by-state stream, sync-hook schedule lattice, stop-latency probes, race detector (thorough)',
            'C12_*: over every reachable state of the command-thread/search-thread LTS at shared-operation granularity: the command thread never blocks, a stop seen by a running search is in the channel until polled, exactly one bestmove per go, isready always answered and transparent, no stale token reaches a later search, bounded work after the stop; the pre-fix protocol is refuted by three concrete schedules. C12lat.v (LatencyProofs): the bound the transition system assumes between polls is proved of the search model: at most 64 node evaluations between two polls of the stop channel (one leftmost capture chain), a latched flag only unwinds, a stop visible at the k-th poll ends the whole go within (k+1+max_depth)*64 evaluations; the quiescence loop as it was before fix 67f3a87 never polled (C12_prefix_quiescence_never_polled). Tie: PROTO stream - random interleavings of commands and search-thread progress with the shared state (running flag, pending stop, bestmoves, readyoks, interruption flag, phase) compared after every step with Protocol.step; stop latency of the real binary on capture-heavy positions.' + CORR,
            TB + 'Partial: sequentially consistent interleaving of shared operations; the Go memory model/scheduler is not modelled (the shared accesses are an atomic.Bool and channel operations; -race run in the thorough tier).', '6/C12'),
    'C13': ('Coq theorems (lia) on the allotment formula + translation validation of calcEndtime from the Go source text + exhaustive boundary-lattice correspondence through the real `go` command',
            'C13_value/mover_clock/bounds/mono_left/mono_inc/anti_mtg/movetime/clock_deadline/parsed_mtg/no_panic hold for ALL integers in the stated range (C13_movetime for every movetime value, -1 included; C13_marker_is_no_argument: the model's encoding of 'no movetime argument' cannot be produced by any argument text); C13src.v: the SOURCE TEXT of calcEndtime is translated to a syntax tree on every run (verifh gen-fns, go/parser) and proved, under the Go semantics of GoLang.v, to compute exactly the model function for all arguments (division by zero included), so an edit of that function breaks a named proof; the model (Uci.v) is also executed against the built engine on 462k `go` commands (complete lattice + random/malformed argument lists).' + CORR,
            TB + 'Partial: wall-clock honouring of the deadline is sampled (validation).', '6/C13'),
    'C14': ('Coq theorems on the session machine (position resets, go reads only position+killers, log interval only affects currmove lines) + engine-vs-engine histories',
            'C14_position_resets, C14_go_reads_only_position_and_killers, C14_logging_option_irrelevant: after an accepted `position` the only state a `go` reads is the position, an EMPTY killer table and the logging interval; the interval changes nothing but currmove events (simulation proof through the whole search: scores, lines, node counts, killers equal). Engine: the probe `position P; go depth d` in a fresh process vs after random histories (other and the same position searched deeper, stopped searches, perft/eval, setoption), move numbers at the killer-table boundaries; all info-depth lines incl. node counts and PVs must be identical.' + CORR,
            TB + 'Determinism of Go\'s sort for equal inputs is assumed (ordering is a function in the model).', '6/C14'),
    'C15': ('Coq equivariance proof of the whole evaluation under colour flip + list-order independence + mirrored position pairs on the engine',
            'C15_mirror / C15_symmetric / C15_list_order: for every well-formed position the colour-flipped position evaluates identically (material, piece-square tables incl. the binary64 king taper with identical arguments, own and opponent mobility with the king-capture and start-rank-ep quirks), and the value does not depend on piece-list order; from kernel sweeps over the regenerated tables + equivariance of is_under_check/make/count_moves.' + CORR,
            TB + 'IEEE binary64 modelled with Coq SpecFloat; no float reasoning needed for symmetry.', '6/C15'),
    'C16': ('Coq stack-discipline theorems for every oracle + in-process query sequences with snapshots',
            'C16_go_leaves_the_stack etc.: every push is popped on every exit path (cut-off, interruption, deadline) and the evaluation\'s turn-flag flip is undone, for all oracles/orderings; perft/eval are modelled functionally. C16sess.v: C16_only_position_changes_the_position: in the session model NO line other than a `position` command changes the position (go with any search result, perft, tperft, eval, tostr, isready, setoption, stop, uci, help, junk), and the search of the engine hands back the one-slot stack it was given. The engine is checked after every query command of random sequences (stack index 0, snapshot unchanged, same probe search).' + CORR,
            TB, '6/C16'),
    'C17': ('Coq theorems: the command interpreter is total and keeps the session invariant for every line + grammar/junk scripts on the real binary vs the session model',
            'C17_interpreter_total(_legal_moves), C17_go_arguments_total, C17_session_never_crashes: for EVERY input line (arbitrary text, truncated commands, any numeric argument, options out of range, commands before a position, rejected FENs, move lists that are legal per UCI) `handle` returns without panic and keeps (position well-formed, ply margin, logging interval in range); C17full.v: NO premise is left: C17_search_never_panics (iterative deepening from any well-formed legal position, depth 1..40, any killer table, any stop/clock stream, never panics: capacity + stale-PV + generator/make + index panics all excluded), perft/tperft totality (PerftProofs), hence C17_interpreter_never_panics and C17_read_loop_never_crashes for the engine\'s own search under any permuting ordering. Engine: scripts line by line, output classes vs model, liveness (`isready`->`readyok`) after every line; commands during a running search incl. a 70 KB line.' + CORR,
            TB + 'Only hypothesis: the ordering permutes. Wedging (as opposed to crashing) of the real process is decided by the liveness probes; the Go runtime (stack growth, scanner buffer) is not modelled.', '6/C17'),
    'C18': ('Coq capacity theorem (PV rows, stack, quiescence fuel) for every oracle + stress inputs on the engine',
            'C18_no_capacity_panic: with tactical moves decreasing a measure (<= 46) and depth <= 40 the search never indexes the PV table, the position stack or runs out of quiescence fuel: 40 + 46 + 1 < 88 rows < 200 slots. C18chess.v: the measure (pieces + 2 x pawns <= 46, never increased by a move, decreased by every capture/promotion) is proved for the real generator and make_legal, so C18_chess_no_capacity_panic has no premise but depth <= 40 and a well-formed legal root. Engine: move numbers up to the loader\'s limit, iteration 40 on blocked positions, capture-heavy positions, games of 300-700 plies.' + CORR,
            TB + 'Killer-table slot arithmetic is total by construction (uint16 mod 350).', '6/C18'),
    'C19': ('Coq theorems on the read loop (any input, any search) + child processes ended by quit/EOF in every state',
            'C19_terminates/eof/quit: the read loop ends after at most one iteration per input line plus one, at once on end of input, and at `quit` without reading further, for every input and every search; the pre-fix loop (ignoring Scan) is the recorded finding.' + CORR,
            TB + 'Partial: OS pipe semantics and process teardown are observed, not modelled.', '6/C19'),
}

ALL = ['C%02d' % i for i in range(1, 20)]

BASELINE = ("cd /repo && export GOFLAGS=-mod=mod GOPROXY=off GOSUMDB=off GOTOOLCHAIN=local && go build ./... && "
            "go test -vet=off -count=1 -timeout 25m ./...")


def main():
    checks = []
    for pid in ALL:
        if pid not in CLAIMS:
            continue
        tech, text, note, ref = CLAIMS[pid]
        checks.append({
            'property_id': pid,
            'quick_cmd': './check %s --tier quick' % pid,
            'thorough_cmd': './check %s --tier thorough' % pid,
            'evidence_file': '/verif/evidence/%s.json' % pid,
            'replay_cmd_template': './check %s --replay {path}' % pid,
            'engine': 'coq-model+correspondence',
            'level_claimed': {'category': 'proof', 'text': text, 'design_ref': 'DESIGN.md section ' + ref},
            'level_note': note,
            'technique': tech,
        })
    na = [{'property_id': p, 'reason': 'check under construction in this session; will be claimed once its model runs in the correspondence'}
          for p in ALL if p not in CLAIMS]
    m = {
        'version': 1,
        'setup_cmd': './check --setup',
        'hooks': {'guard': 'verif', 'enable': 'go build -tags verif (harness module /verif/harness with replace macsmol/magog => /repo)',
                  'baseline_off_cmd': BASELINE,
                  'source_commits': ['6689093', '76199ae', '16d9197', 'e39a3fe', '77c86f9', 'f061b3c'], 'add_only': True},
        'engines': [{'name': 'coq-model+correspondence', 'path': '/verif/coq', 'serves_properties': sorted(CLAIMS),
                     'kind_free_text': 'Coq 8.16.1 development (model + theorems), extracted OCaml oracle, Go harness (tag verif), Python driver ./check'}],
        'checks': checks,
        'not_applicable': na,
        'notes': 'Every check rebuilds the harness and the engine from /repo, regenerates coq/Generated.v from the built code, runs a full '
                 '`make` of the Coq development, re-checks the property theorems with coqc, then runs the correspondence streams.',
    }
    json.dump(m, open('/verif/MANIFEST.json', 'w'), indent=1)


if __name__ == '__main__':
    main()
