#!/usr/bin/env python3
"""Regenerates /verif/MANIFEST.json from the table below (kept here so that it stays consistent with lib/props.py)."""
import json, sys
sys.path.insert(0, '/verif/lib')

CLAIMS = {
    # id: (technique, level text, level note, design section)
    'C13': ('Coq theorems (lia) on the allotment formula + exhaustive boundary-lattice correspondence through the real `go` command',
            'Theorems C13_value/mover_clock/bounds/mono_left/mono_inc/anti_mtg/movetime/clock_deadline/parsed_mtg/no_panic hold for ALL integers in the '
            'stated range (not a lattice); the model they are about (Uci.v millis_for_move/allotted_ns/parse_go) is executed against the built engine on '
            '462k `go` commands (complete boundary lattice + random/malformed argument lists) on every run. Wall-clock honouring is sampled (partial).',
            'Trusted: Coq kernel, extraction (ExtrOcamlBasic), harness/deadline hook, hand-written model of doGo/calcEndtime; wall clock part is validation only.',
            '6/C13'),
}

ALL = ['C%02d' % i for i in range(1, 20)]

BASELINE = ("cd /repo && export GOFLAGS=-mod=mod GOPROXY=off GOSUMDB=off GOTOOLCHAIN=local && go build ./... && "
            "go test -vet=off -count=1 -timeout 25m ./...")


def main():
    checks = []
    for pid in ALL:
        if pid not in CLAIMS:
            continue
        tech, text, note, ref = CLAIMS[pid]
        checks.append({
            'property_id': pid,
            'quick_cmd': './check %s --tier quick' % pid,
            'thorough_cmd': './check %s --tier thorough' % pid,
            'evidence_file': '/verif/evidence/%s.json' % pid,
            'replay_cmd_template': './check %s --replay {path}' % pid,
            'engine': 'coq-model+correspondence',
            'level_claimed': {'category': 'proof', 'text': text, 'design_ref': 'DESIGN.md section ' + ref},
            'level_note': note,
            'technique': tech,
        })
    na = [{'property_id': p, 'reason': 'check under construction in this session; will be claimed once its model runs in the correspondence'}
          for p in ALL if p not in CLAIMS]
    m = {
        'version': 1,
        'setup_cmd': './check --setup',
        'hooks': {'guard': 'verif', 'enable': 'go build -tags verif (harness module /verif/harness with replace macsmol/magog => /repo)',
                  'baseline_off_cmd': BASELINE,
                  'source_commits': ['f061b3c'], 'add_only': True},
        'engines': [{'name': 'coq-model+correspondence', 'path': '/verif/coq', 'serves_properties': sorted(CLAIMS),
                     'kind_free_text': 'Coq 8.16.1 development (model + theorems), extracted OCaml oracle, Go harness (tag verif), Python driver ./check'}],
        'checks': checks,
        'not_applicable': na,
        'notes': 'Every check rebuilds the harness and the engine from /repo, regenerates coq/Generated.v from the built code, runs a full '
                 '`make` of the Coq development, re-checks the property theorems with coqc, then runs the correspondence streams.',
    }
    json.dump(m, open('/verif/MANIFEST.json', 'w'), indent=1)


if __name__ == '__main__':
    main()
