#!/bin/bash
# eval_round.sh <dir>: for every <dir>/<ID>/patch.diff: confirm it (scratch worktree: suite, demo on original / with the change) and run the
# quick check of the property it breaks against /repo with the change applied.  One summary line each.
D=$1
cd /verif
for p in $D/C*/patch.diff; do
  dir=$(dirname $p); id=$(basename $dir)
  echo -n "$id: "
  lib/try_mutant.sh $id $dir 2>&1 | grep -E "demo on|suite exit|check .* exit|does not apply" | sort -u | tr '\n' ';'
  echo " viol=$(grep -c '^VIOLATION' /tmp/mutchk_$id.check_$id.log 2>/dev/null) nfi=$(grep -c 'no-failing-input-found' /tmp/mutchk_$id.check_$id.log 2>/dev/null)"
done
