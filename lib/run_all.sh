#!/bin/bash
# run_all.sh [tier]: every registered check in turn on the current tree; one summary line each
cd /verif
tier=${1:-quick}
for i in $(seq -w 1 19); do
  id=C$i
  s=$(date +%s)
  out=$(./check $id --tier $tier 2>&1); rc=$?
  e=$(( $(date +%s) - s ))
  echo "$id $tier exit=$rc ${e}s $(echo "$out" | grep -c '^VIOLATION') violation(s) $(echo "$out" | grep '^KNOWN-FINDING' | head -1)"
  [ $rc -ne 0 ] && echo "$out" | grep '^VIOLATION' | head -3
done
