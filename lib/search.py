"""SEARCH stream: real engine searches (over pipes) against the extracted model's search / minimax / mate solver."""
import re, time, threading, hashlib
import common, uci
from common import RUN, log, harness, run_oracle

CLOSE_TO_MATE = 20800
LOST = -100000


def positions(ctx, n, extra_seed=0):
    """list of dicts {fen, men, nlegal, in_check, src} from the harness (non-terminal and terminal ones)"""
    rc, out, err, _ = harness(['fens', str(n)], env_extra={'VERIF_SEED': str(common.seed() + extra_seed)})
    res = []
    for l in out.strip().split('\n'):
        p = l.split('\t')
        if len(p) == 5:
            placement = p[4].split(' ')[0] if not p[4].startswith('startpos') else ''
            # the extracted model searches ~3k nodes/s: keep quiescence trees small (few queens) for everything it must search too
            if placement.count('q') > 2 or placement.count('Q') > 2:
                continue
            res.append({'men': int(p[0]), 'nlegal': int(p[1]), 'in_check': p[2] == '1', 'src': p[3], 'fen': p[4]})
    return res


def pos_cmd(start):
    """UCI position command for a FEN or a 'startpos [moves ...]' string"""
    return 'position ' + start if start.startswith('startpos') else 'position fen ' + start


def depth_for(pos, quick):
    if quick and pos.get('src', '') == 'ep-trap':
        return 1 if pos.get('men', 0) % 2 else 3      # the double push must be the last full-width ply: odd depths
    if quick and (pos.get('src', '').startswith('promo') or pos.get('src', '') in ('movelist-double-push', 'corner-promo')):
        return 2
    if pos['men'] <= 6:
        return 4 if not quick else 3
    if pos['men'] <= 12:
        return 3 if not quick else 2
    return 2 if not quick else (2 if pos['men'] <= 24 else 1)


def format_score(score):
    """engine's formatScore"""
    if abs(score) > CLOSE_TO_MATE:
        sign = -1 if score < 0 else 1
        plies = -LOST - abs(score)
        # Go: sign * (plies + 1) / 2 with truncated division of the product
        v = sign * (plies + 1)
        q = abs(v) // 2
        return ('mate', q if v >= 0 else -q)
    return ('cp', score)


class Job:
    def __init__(self, fen, go, history=None, stop_after=None, tag=None):
        self.fen, self.go, self.history, self.stop_after, self.tag = fen, go, history or [], stop_after, tag
        self.lines = None
        self.died = False
        self.timeout = False
        self.elapsed = 0.0
        self.stderr = ''


def run_jobs(jobs, workers=8, per_job_timeout=120, fresh_process_each=False):
    """Runs every job on the real engine: history commands, `position fen <fen>`, the go command; collects the lines up to bestmove."""
    lock = threading.Lock()
    it = iter(range(len(jobs)))

    def worker():
        e = None
        while True:
            with lock:
                try:
                    i = next(it)
                except StopIteration:
                    break
            j = jobs[i]
            if e is None or fresh_process_each or not e.alive():
                if e is not None:
                    e.kill()
                e = uci.Engine()
                e.ready()
            for h in j.history:
                if isinstance(h, tuple):      # ('wait-bestmove',) style controls
                    if h[0] == 'wait':
                        e.read_until(lambda l: l.startswith('bestmove'), per_job_timeout)
                    elif h[0] == 'sleep':
                        time.sleep(h[1])
                    continue
                e.send(h)
            if not e.ready(30):
                j.died = not e.alive()
                j.timeout = e.alive()
                j.lines = e.lines[:]
                j.stderr = e.stderr_text()
                e.kill()
                e = None
                continue
            e.send(pos_cmd(j.fen))
            n0 = len(e.lines)
            t = time.time()
            e.send(j.go)
            if j.stop_after is not None:
                time.sleep(j.stop_after)
                e.send('stop')
            idx, died = e.read_until(lambda l: l.startswith('bestmove'), per_job_timeout, start=n0)
            j.elapsed = time.time() - t
            j.lines = e.lines[n0:(idx + 1 if idx is not None else len(e.lines))]
            if idx is None:
                j.died = died or not e.alive()
                j.timeout = not j.died
                j.stderr = e.stderr_text()
                e.kill()
                e = None
        if e is not None:
            e.close()
    th = [threading.Thread(target=worker) for _ in range(min(workers, max(1, len(jobs))))]
    for x in th:
        x.start()
    for x in th:
        x.join()
    return jobs


def model_searches(fens_depths, order='tact'):
    """oracle SEARCH answers: list of dicts {iters: [{depth, score, sens, pv}], best} or {'nomove': True} / {'error': ...}"""
    reqs = ['SEARCH\t%s\t%d\t%s' % (f, d, order) for f, d in fens_depths]
    outs = run_oracle(reqs)
    res = []
    for o in outs:
        if o == 'NOMOVE':
            res.append({'nomove': True})
            continue
        if not o.startswith('OK|'):
            res.append({'error': o})
            continue
        _, its, best = o.split('|')
        iters = []
        for it in its.split(';'):
            d, sc, se, pv = it.split(':')
            iters.append({'depth': int(d), 'score': int(sc), 'sens': se == '1', 'pv': pv.split(',')})
        res.append({'iters': iters, 'best': best})
    return res


def impl_iterations(parsed):
    """completed iterations as the engine reports them: {depth: (kind, value, pv, nodes)}; the final `info score` line carries the last one"""
    its = {}
    for d in parsed['depth_lines']:
        its[d['depth']] = (d['kind'], d['value'], d['pv'], d['nodes'])
    if parsed['score_lines']:
        f = parsed['score_lines'][-1]
        its.setdefault(f['depth'], (f['kind'], f['value'], f['pv'], f['nodes']))
    return its


def lines_legal(fen_lines):
    """oracle LINE: for (fen, [moves]) returns index of first illegal move or -1"""
    outs = run_oracle(['LINE\t%s\t%s' % (f, ' '.join(ms)) for f, ms in fen_lines])
    res = []
    for o in outs:
        if o.startswith('LINE '):
            res.append(int(o.split()[1]))
        else:
            res.append(-2 if o != 'BADTEXT' else 0)
    return res


def sig(*parts):
    return hashlib.sha1('|'.join(map(str, parts)).encode()).hexdigest()[:12]
