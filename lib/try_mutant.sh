#!/bin/bash
# try_mutant.sh <property-id> <dir with patch.diff demo.sh NOTE.md> [other checks to run ...]
# 1. scratch worktree: patch compiles, suite passes, demo FAILs with it and PASSes without
# 2. apply to /repo, run ./check <id> (and any extra ids), undo
set -u
ID=$1; SRC=$2; shift 2; EXTRA="$*"
export GOFLAGS=-mod=mod GOPROXY=off GOSUMDB=off GOTOOLCHAIN=local
W=/tmp/mutchk_$ID
rm -f /tmp/mutchk_$ID.*.log
rm -rf $W; git -C /repo worktree prune; git -C /repo worktree add -q --detach $W HEAD || exit 3
cp $SRC/demo.sh $W/demo.sh 2>/dev/null
( cd $W && bash demo.sh > /tmp/mutchk_$ID.orig.log 2>&1; echo "demo on original: exit $?" )
( cd $W && git apply $SRC/patch.diff && go build ./... && go test -vet=off -count=1 ./... 2>&1 | tail -2; echo "suite exit: ${PIPESTATUS[0]}" )
( cd $W && bash demo.sh > /tmp/mutchk_$ID.mut.log 2>&1; echo "demo on mutant: exit $?" )
git -C /repo worktree remove --force $W
cd /verif
git -C /repo apply $SRC/patch.diff || { echo "patch does not apply to /repo"; exit 4; }
for c in $ID $EXTRA; do
  ./check $c --tier quick > /tmp/mutchk_$ID.check_$c.log 2>&1; echo "check $c exit: $?"; grep -E "^VIOLATION|^KNOWN" /tmp/mutchk_$ID.check_$c.log | head -5
done
git -C /repo checkout -- . ; git -C /repo status --short | head -3
