"""Driving the real engine binary over pipes."""
import os, re, select, subprocess, time

ENGINE = '/verif/build/magog'


class Engine:
    def __init__(self, binary=ENGINE, banner=True):
        self.p = subprocess.Popen([binary], stdin=subprocess.PIPE, stdout=subprocess.PIPE, stderr=subprocess.PIPE, bufsize=0)
        self.buf = b''
        self.lines = []          # every stdout line seen so far
        self.t_lines = []        # arrival time of each line
        os.set_blocking(self.p.stdout.fileno(), False)

    def send(self, line):
        try:
            self.p.stdin.write((line + '\n').encode('latin-1', 'replace') if isinstance(line, str) else line + b'\n')
            self.p.stdin.flush()
            return True
        except (BrokenPipeError, OSError):
            return False

    def _pump(self, timeout):
        r, _, _ = select.select([self.p.stdout], [], [], timeout)
        if not r:
            return False
        try:
            data = os.read(self.p.stdout.fileno(), 1 << 16)
        except BlockingIOError:
            return True
        if not data:
            return None          # EOF
        self.buf += data
        now = time.time()
        while b'\n' in self.buf:
            l, self.buf = self.buf.split(b'\n', 1)
            self.lines.append(l.decode('latin-1'))
            self.t_lines.append(now)
        return True

    def read_until(self, pred, timeout=10.0, start=None):
        """Wait until a line (from index start on) satisfies pred; returns (index or None, died?)."""
        i = len(self.lines) if start is None else start
        deadline = time.time() + timeout
        while True:
            while i < len(self.lines):
                if pred(self.lines[i]):
                    return i, False
                i += 1
            left = deadline - time.time()
            if left <= 0:
                return None, self.p.poll() is not None
            r = self._pump(min(left, 0.5))
            if r is None:
                # EOF: drain done
                while i < len(self.lines):
                    if pred(self.lines[i]):
                        return i, False
                    i += 1
                return None, True

    def ready(self, timeout=10.0):
        n = len(self.lines)
        if not self.send('isready'):
            return False
        idx, died = self.read_until(lambda l: l == 'readyok', timeout, start=n)
        return idx is not None

    def alive(self):
        return self.p.poll() is None

    def stderr_text(self):
        try:
            os.set_blocking(self.p.stderr.fileno(), False)
            return (self.p.stderr.read() or b'').decode('latin-1')[-2000:]
        except Exception:
            return ''

    def close(self, timeout=3.0):
        """quit and wait; returns exit code or None if it had to be killed"""
        self.send('quit')
        try:
            return self.p.wait(timeout)
        except subprocess.TimeoutExpired:
            self.p.kill()
            self.p.wait()
            return None

    def kill(self):
        try:
            self.p.kill()
            self.p.wait()
        except Exception:
            pass


INFO_DEPTH = re.compile(r'^info depth (\d+) score (cp|mate) (-?\d+) nps (-?\d+) time (-?\d+) nodes (\d+) pv (.*?)\s*$')
INFO_SCORE = re.compile(r'^info score (cp|mate) (-?\d+) depth (\d+) nps (-?\d+) time (-?\d+) nodes (\d+) pv (.*?)\s*$')
INFO_CURR = re.compile(r'^info currmove (\S+) currmovenumber (\d+) nodes (\d+) time (-?\d+) nps (-?\d+)\s*$')
BESTMOVE = re.compile(r'^bestmove (\S+)\s*$')


def parse_search_output(lines):
    """Structured view of the lines one `go` produced (up to and including bestmove)."""
    out = {'depth_lines': [], 'score_lines': [], 'curr_lines': [], 'bestmove': [], 'malformed': []}
    for l in lines:
        m = INFO_DEPTH.match(l)
        if m:
            out['depth_lines'].append({'depth': int(m.group(1)), 'kind': m.group(2), 'value': int(m.group(3)), 'nodes': int(m.group(6)),
                                       'pv': m.group(7).split(), 'time': int(m.group(5))})
            continue
        m = INFO_SCORE.match(l)
        if m:
            out['score_lines'].append({'depth': int(m.group(3)), 'kind': m.group(1), 'value': int(m.group(2)), 'nodes': int(m.group(6)),
                                       'pv': m.group(7).split(), 'time': int(m.group(5))})
            continue
        m = INFO_CURR.match(l)
        if m:
            out['curr_lines'].append({'move': m.group(1), 'number': int(m.group(2))})
            continue
        m = BESTMOVE.match(l)
        if m:
            out['bestmove'].append(m.group(1))
            continue
        if l.startswith('info') or l.startswith('bestmove'):
            out['malformed'].append(l)
    return out
