"""Shared machinery of the checks: build (harness, Generated.v, Coq, oracle), sharded oracle runs,
evidence files, violation / replay reporting, known findings."""
import fcntl, hashlib, json, os, re, subprocess, sys, time, shutil

V = '/verif'
B = V + '/build'
COQ = V + '/coq'
RUN = B + '/run/p%d' % os.getpid()      # per-process scratch directory (several checks may run at the same time)
REPO = '/repo'
NPROC = 16

GOENV = dict(os.environ, GOFLAGS='-mod=mod', GOPROXY='off', GOSUMDB='off', GOTOOLCHAIN='local', CGO_ENABLED='0')
GOENV_RACE = dict(GOENV, CGO_ENABLED='1')

T0 = time.time()


def _cleanup_run():
    shutil.rmtree(RUN, ignore_errors=True)


import atexit
atexit.register(_cleanup_run)


def log(*a):
    print('[%6.1fs]' % (time.time() - T0), *a, file=sys.stderr, flush=True)


def sh(cmd, cwd=None, env=None, timeout=3600, inp=None):
    p = subprocess.run(cmd, cwd=cwd, env=env, timeout=timeout, input=inp, stdout=subprocess.PIPE, stderr=subprocess.STDOUT,
                       text=True, shell=isinstance(cmd, str))
    return p.returncode, p.stdout


def seed():
    try:
        return int(os.environ.get('VERIF_SEED', '1'))
    except ValueError:
        return 1


# ---------------------------------------------------------------- build

FORBIDDEN = re.compile(r'\b(Admitted|admit|Axiom|Parameter|Conjecture|Abort All)\b|Unset Guard|bypass_check|Admit Obligations|'
                       r'-type-in-type|-impredicative-set|Unset Universe Checking|Unset Positivity')


def coq_files():
    out = []
    for l in open(COQ + '/_CoqProject'):
        l = l.strip()
        if l.endswith('.v'):
            out.append(l)
    return out


def audit():
    """grep the development for anything that would declare an axiom or switch a kernel check off"""
    bad = []
    for f in coq_files():
        if f == 'Generated.v':
            continue
        txt = open(COQ + '/' + f).read()
        # strip comments
        txt2 = re.sub(r'\(\*.*?\*\)', '', txt, flags=re.S)
        for m in FORBIDDEN.finditer(txt2):
            bad.append('%s: %s' % (f, m.group(0)))
        # Variable/Hypothesis outside a section
        depth = 0
        for line in txt2.split('\n'):
            s = line.strip()
            if re.match(r'Section\b', s):
                depth += 1
            elif re.match(r'End\b', s) and depth > 0:
                depth -= 1
            elif depth == 0 and re.match(r'(Variables?|Hypothes[ie]s|Context)\b', s):
                bad.append('%s: %s outside a section' % (f, s[:40]))
    return bad


class Build:
    def __init__(self):
        self.ok_go = True
        self.coq_failed = []      # .v files whose .vo is missing after make
        self.coq_log = ''
        self.generated_changed = False
        self.oracle_ok = True
        self.audit = []
        self.seconds = 0.0


def _newer(a, b):
    return (not os.path.exists(b)) or os.path.getmtime(a) > os.path.getmtime(b)


def _install(new, dst):
    """replace dst by new only when the content differs (a rename is safe while another check still executes the old file)"""
    try:
        same = os.path.exists(dst) and open(new, 'rb').read() == open(dst, 'rb').read()
    except OSError:
        same = False
    if same:
        os.remove(new)
    else:
        os.replace(new, dst)


def build(need_race=False):
    """Rebuild everything a check needs from /repo's working tree.  Serialised by a file lock; cheap when nothing changed."""
    t = time.time()
    os.makedirs(B, exist_ok=True)
    os.makedirs(RUN, exist_ok=True)
    lock = open(B + '/.lock', 'w')
    fcntl.flock(lock, fcntl.LOCK_EX)
    b = Build()
    try:
        # 1. Go: harness with hooks on, engine binary as shipped (tag off) and with the tag (sync points live)
        shutil.copyfile(REPO + '/go.sum', V + '/harness/go.sum')
        rc, out = sh(['go', 'build', '-tags', 'verif', '-o', B + '/verifh.new', '.'], cwd=V + '/harness', env=GOENV)
        if rc == 0:
            _install(B + '/verifh.new', B + '/verifh')
        if rc != 0:
            b.ok_go = False
            b.coq_log = out
            log('go build of harness failed:\n' + out)
            return b
        rc, out = sh(['go', 'build', '-o', B + '/magog.new', '.'], cwd=REPO, env=GOENV)
        if rc == 0:
            _install(B + '/magog.new', B + '/magog')
        if rc != 0:
            b.ok_go = False
            b.coq_log = out
            log('go build of engine failed:\n' + out)
            return b
        if need_race:
            rc, out = sh(['go', 'build', '-race', '-tags', 'verif', '-o', B + '/verifh_race.new', '.'], cwd=V + '/harness', env=GOENV_RACE)
            if rc == 0:
                _install(B + '/verifh_race.new', B + '/verifh_race')
            if rc != 0:
                log('race build failed (cgo unavailable?):\n' + out[-600:])
        # 2. regenerate the data part of the model from the built code
        rc, gen = sh([B + '/verifh', 'gen-coq'])
        if rc != 0:
            b.ok_go = False
            b.coq_log = gen
            return b
        gpath = COQ + '/Generated.v'
        old = open(gpath).read() if os.path.exists(gpath) else None
        if old != gen:
            open(gpath, 'w').write(gen)
            b.generated_changed = old is not None
        # 2b. translate the source text of a few small integer functions (GoLang.v gives the syntax its meaning, GoFnsProofs.v
        #     proves each equal to the hand-written model)
        rc, fns = sh([B + '/verifh', 'gen-fns', REPO + '/engine'])
        if rc != 0:
            b.ok_go = False
            b.coq_log = fns
            return b
        fpath = COQ + '/GeneratedFns.v'
        oldf = open(fpath).read() if os.path.exists(fpath) else None
        if oldf != fns:
            open(fpath, 'w').write(fns)
            b.generated_changed = b.generated_changed or oldf is not None
        # 3. Coq: full .vo build, keep going past failures so that the model (and the oracle) survive a broken proof
        if _newer(COQ + '/_CoqProject', COQ + '/Makefile'):
            sh(['coq_makefile', '-f', '_CoqProject', '-o', 'Makefile'], cwd=COQ)
        rc, out = sh('timeout 3000 make -k -j%d 2>&1' % NPROC, cwd=COQ)
        b.coq_log = out
        for f in coq_files():
            vo = COQ + '/' + f[:-2] + '.vo'
            if not os.path.exists(vo) or os.path.getmtime(vo) < os.path.getmtime(COQ + '/' + f):
                b.coq_failed.append(f)
        # a file whose dependency failed keeps its OLD .vo: ask make what it would still rebuild
        rc2, dry = sh('make -n -k 2>/dev/null', cwd=COQ)
        for f in sorted(set(re.findall(r'COQC ([A-Za-z0-9_]+\.v)', dry))):
            if f not in b.coq_failed:
                b.coq_failed.append(f)
        if b.coq_failed:
            log('coq files not compiled:', b.coq_failed)
        # 4. oracle (extraction) when the model changed
        model_files = ['Base', 'Generated', 'Position', 'Attack', 'Make', 'Gen', 'Count', 'Eval', 'Perft', 'Str', 'Fen', 'Uci',
                       'Search', 'Spec', 'Abs', 'Session', 'Protocol', 'MainLoop', 'SearchImp', 'Mirror']
        orc = B + '/oracle/oracle'
        stale = not os.path.exists(orc)
        for m in model_files + ['Extract']:
            for ext in ('.vo', '.v'):
                p = COQ + '/' + m + ext
                if os.path.exists(p) and _newer(p, orc):
                    stale = True
        if _newer(V + '/oracle/drv.ml', orc):
            stale = True
        if stale:
            rc, out = sh([V + '/lib/build_oracle.sh'])
            if rc != 0:
                b.oracle_ok = False
                log('oracle build failed:\n' + out[-1500:])
        b.audit = audit()
    finally:
        b.seconds = time.time() - t
        fcntl.flock(lock, fcntl.LOCK_UN)
        lock.close()
    return b


def check_theorems(files):
    """Re-run coqc on the property files (their dependencies are compiled) and read the Print Assumptions output.
    Returns (n_theorems, n_closed, details, failed_files)."""
    n = closed = 0
    details = []
    failed = []
    for f in files:
        rc, out = sh('timeout 900 coqc -R . Magog %s' % f, cwd=COQ)
        src = re.sub(r'\(\*.*?\*\)', '', open(COQ + '/' + f).read(), flags=re.S)
        thms = re.findall(r'^\s*Theorem\s+(\w+)', src, flags=re.M)
        if rc != 0:
            failed.append(f)
            details.append({'file': f, 'error': out[-800:]})
            n += len(thms)
            continue
        n += len(thms)
        blocks = out.count('Closed under the global context')
        axioms = re.findall(r'^Axioms:\n((?:.+\n)+)', out, flags=re.M)
        closed += min(blocks, len(thms)) if not axioms else 0
        details.append({'file': f, 'theorems': thms, 'closed_under_global_context': blocks, 'axioms': axioms})
    return n, closed, details, failed


# ---------------------------------------------------------------- oracle

def run_oracle(lines, shards=NPROC, timeout=3000):
    """Answers of the extracted model for request lines (kept in order)."""
    if not lines:
        return []
    shards = max(1, min(shards, len(lines)))
    chunks = [lines[i::shards] for i in range(shards)]
    procs = []
    for c in chunks:
        p = subprocess.Popen([B + '/oracle/oracle'], stdin=subprocess.PIPE, stdout=subprocess.PIPE, text=True)
        procs.append(p)
    import threading
    outs = [None] * shards

    def feed(i):
        o, _ = procs[i].communicate('\n'.join(chunks[i]) + '\n', timeout=timeout)
        outs[i] = o.split('\n')
        if outs[i] and outs[i][-1] == '':
            outs[i].pop()
    th = [threading.Thread(target=feed, args=(i,)) for i in range(shards)]
    for x in th:
        x.start()
    for x in th:
        x.join()
    res = [None] * len(lines)
    for i in range(shards):
        o = outs[i] or []
        for k, idx in enumerate(range(i, len(lines), shards)):
            res[idx] = o[k] if k < len(o) else 'ORACLE-DIED'
    return res


def read_lines(path):
    with open(path, errors='replace') as f:
        return f.read().split('\n')[:-1]


HARNESS_DEATHS = []


def harness(args, timeout=3000, env_extra=None, binary='verifh'):
    env = dict(os.environ, VERIF_SEED=str(seed()))
    if env_extra:
        env.update(env_extra)
    p = subprocess.run([B + '/' + binary] + args, cwd=RUN, env=env, timeout=timeout, stdout=subprocess.PIPE, stderr=subprocess.PIPE, text=True)
    if p.returncode != 0:
        # the in-process harness died: an engine panic outside the guarded observation points (or a harness bug); never silently
        # continue on a truncated stream
        HARNESS_DEATHS.append({'command': binary + ' ' + ' '.join(str(a) for a in args), 'seed': env['VERIF_SEED'], 'exit': p.returncode,
                               'stderr_head': p.stderr[:1500], 'stderr_tail': p.stderr[-600:]})
    stats = {}
    for l in p.stderr.split('\n'):
        if l.startswith('STATS '):
            for kv in l.split()[2:]:
                if '=' in kv:
                    k, v = kv.split('=', 1)
                    stats[k] = int(v) if v.lstrip('-').isdigit() else v
    return p.returncode, p.stdout, p.stderr, stats


# ---------------------------------------------------------------- verdicts

def load_known():
    known, fixed = [], []
    p = V + '/known-findings.txt'
    if os.path.exists(p):
        for l in open(p):
            l = l.strip()
            if l.startswith('known:'):
                m = re.match(r'known:\s+property=(\S+)\s+signature=(\S+)\s+(.*)', l)
                if m:
                    known.append({'property': m.group(1), 'signature': m.group(2), 'what': m.group(3)})
            elif l.startswith('fixed:'):
                fixed.append(l)
    return known, fixed


class Verdict:
    def __init__(self, pid, tier):
        self.pid = pid
        self.tier = tier
        self.violations = []      # (replay_path, suffix)
        self.known_hits = []
        self.known, self.fixed = load_known()

    def violation(self, kind, data, signature=None, no_input=False):
        """Record a violation with its replay file; a listed known finding is printed as such instead."""
        sig = signature or hashlib.sha1(json.dumps(data, sort_keys=True).encode()).hexdigest()[:12]
        for k in self.known:
            if k['property'] == self.pid and k['signature'] == sig:
                if sig not in self.known_hits:
                    self.known_hits.append(sig)
                    print('KNOWN-FINDING: property=%s %s' % (self.pid, k['what']), flush=True)
                return
        d = V + '/replays/' + self.pid
        os.makedirs(d, exist_ok=True)
        path = '%s/%s.json' % (d, sig)
        rec = {'property': self.pid, 'kind': kind, 'signature': sig, 'tier': self.tier, 'seed': seed(),
               'replay_cmd': './check %s --replay %s' % (self.pid, os.path.relpath(path, V)), 'data': data}
        json.dump(rec, open(path, 'w'), indent=1)
        if len(self.violations) < 20:
            print('VIOLATION property=%s replay=%s%s' % (self.pid, os.path.relpath(path, V), ' no-failing-input-found' if no_input else ''), flush=True)
        self.violations.append(path)

    def exit_code(self):
        return 1 if self.violations else 0


def write_evidence(pid, tier, coverage, assumptions, wall, violations):
    os.makedirs(V + '/evidence', exist_ok=True)
    ev = {'property_id': pid, 'tier': tier, 'seed': seed(), 'level': 'proof', 'coverage': coverage,
          'assumptions': assumptions, 'wall_s': round(wall, 2), 'violations': violations}
    json.dump(ev, open('%s/evidence/%s.json' % (V, pid), 'w'), indent=1)


TRUSTED_BASE = [
    'Coq 8.16.1 kernel incl. its vm_compute machine (finite sweeps); no native_compute',
    'no axioms declared; Print Assumptions of every property theorem is captured on every run',
    'translators: verifh gen-coq (prints tables/constants of the built engine into Generated.v) and verifh gen-fns (prints the syntax trees of six small functions from the Go source text into GeneratedFns.v; their meaning is GoLang.v)',
    'extraction: ExtrOcamlBasic only (bool, option, unit, list, prod, sumbool, sumor to OCaml types; andb/orb inlined); Z/positive/nat/N/ascii/string/spec_float stay inductive; OCaml 4.13.1 ocamlopt',
    'correspondence harness (Go, tag verif), oracle driver (OCaml), this Python driver: differential testing, not part of any theorem',
    'logic of the engine is modelled by hand (coq/*.v follow engine/*.go function by function); only data is regenerated',
]
