"""LINES stream: command scripts from the grammar of uci.go (valid, boundary, malformed, junk) on the real engine,
compared command by command with the Session model (output classes), plus liveness."""
import random, re, time
import uci
from common import run_oracle

FENS = [
    'r3k2r/p1ppqpb1/bn2pnp1/3PN3/1p2P3/2N2Q1p/PPPBBPPP/R3K2R w KQkq - 0 1',
    '8/2p5/3p4/KP5r/1R3p1k/8/4P1P1/8 w - - 0 1',
    '7k/5Q2/6K1/8/8/8/8/8 b - - 0 1',          # stalemate
    '7k/6Q1/6K1/8/8/8/8/8 b - - 0 1',          # checkmate
    '4k3/8/8/8/8/8/8/4K2R w K - 0 1',
    'n1n5/PPPk4/8/8/8/8/4Kppp/5N1N b - - 0 1',
    '4k3/8/8/8/8/8/8/4K2R w K - 0 200',
    '4k3/8/8/8/8/8/8/4K2R b K - 0 9999',
    '4b1k1/3p1p1p/3P1P1P/8/8/3p1p1p/3P1P1P/4B1K1 w - - 0 1',
]
BADFENS = ['7k/P7/8/8/8/8/NNNNNNNN/KNNNNNNN w - - 0 1', '7K/8/8/8/8/8/p7/knnnnnnn b - - 0 1', 'knnnnnnn/nnnnnnnn/8/8/8/8/7p/7K b - - 0 1', '7k/PP6/8/8/8/8/NNNNNNNN/K1NNNNNN w - - 0 1',
           '4k3/pppppppp/p7/8/8/8/8/4K3 b - - 0 1', 'xyz', '88p/8/8/8/8/8/8/8 w - - 0 1', '4k3/8/8/8/8/8/8/4K3 w - - 0 20000', '8/8/8/8/8/8/8/8 w - - 0 1', '4k3/8/8/8/8/8/8/4K3 w KQ - 0 1',
           '4k3/8/8/8/8/8/8/4K3 w - e6 0 1', '4k3/P7/8/8/8/QQQQQQQQ/QQQQQQQ1/4K3 w - - 0 1', '', 'fen', 'fen ', '4k3/8/8/8/8/8/8/4K3 w - - 0', 'p3k3/8/8/8/8/8/8/4K3 w - - 0 1']
NUMS = ['0', '1', '-1', '2', '3', '200', '250', '1000000', '9999999999', '99999999999999999999', '-5', 'x', '', '1.5', '+2', '0x10', ' 2', '-0', '00']
GAME = 'e2e4 e7e5 g1f3 b8c6 f1c4 g8f6 e1g1 f8c5 d2d3 e8g8'.split()


def gen_script(rng, n_lines):
    """a script for sequential execution: every search is bounded (depth <= 2, small movetime) so that bestmove arrives"""
    lines = []
    have_pos = False
    for _ in range(n_lines):
        k = rng.random()
        if k < 0.22:
            f = rng.random()
            if f < 0.3:
                mv = GAME[:rng.randint(0, len(GAME))]
                lines.append('position startpos' + (' moves ' + ' '.join(mv) if mv else ''))
            elif f < 0.75:
                fen = rng.choice(FENS)
                lines.append(rng.choice(['position ', 'position fen ', 'position  ']) + fen)
            else:
                bad = rng.choice(BADFENS)
                lines.append(rng.choice(['position ', 'position fen ']) + bad + rng.choice(['', '', ' moves e2e4', ' moves e2e4 e7e5']))
                if rng.random() < 0.6:
                    lines.append(rng.choice(['perft 1', 'perft 2', 'go depth 1', 'go depth 2', 'tperft 1', 'eval']))
        elif k < 0.45:
            f = rng.random()
            if f < 0.35:
                lines.append('go depth ' + rng.choice(['1', '2', '1', '2', '0', '-3', 'x', '', '2 depth 1']))
            elif f < 0.55:
                lines.append('go movetime ' + rng.choice(['1', '20', '0', '-2', '-50', 'x', '']))
            elif f < 0.8:
                kw = rng.sample(['wtime', 'btime', 'winc', 'binc', 'movestogo'], rng.randint(1, 5))
                parts = []
                for w in kw:
                    parts.append(w)
                    if rng.random() < 0.9:
                        parts.append(rng.choice(['1', '30', '0', '-1', '100', '5', 'x']) if w != 'movestogo' else rng.choice(['1', '2', '0', '-1', '30', 'x']))
                # keep the search short: cap by depth
                lines.append('go depth 2 ' + ' '.join(parts))
            else:
                lines.append(rng.choice(['go depth', 'go depth 1 wtime', 'go movestogo 0 depth 1', 'go depth 1 movestogo 0 wtime 5 btime 5', 'go depth 2 infinite',
                                         'gox depth 1', 'go  depth 1', 'go depth 1 ponder', 'go depth 1 movetime', 'go depth 1 binc']))
        elif k < 0.6:
            lines.append(rng.choice(['perft ', 'tperft ', 'perft', 'tperft', 'perft  ']) + rng.choice(['1', '2', '1', '2', '1'] + [x for x in NUMS if x not in ('3', '+2', ' 2')]))
        elif k < 0.7:
            lines.append(rng.choice(['setoption name currmoveLogInterval value ' + rng.choice(['10', '9', '0', '-1', '1000', '10000000', '10000001', 'x', '']),
                                     'setoption name Hash value 16', 'setoption', 'setoption name currmoveLogInterval', 'setoption name currmoveLogInterval value 10 extra',
                                     'setoption  name currmoveLogInterval value 50']))
        elif k < 0.8:
            lines.append(rng.choice(['eval', 'tostr', 'isready', 'uci', 'help', 'stop', 'ucinewgame']))
        else:
            junk = ''.join(rng.choice('abcdefghijklmnopqrstuvwxyz 0123456789/-') for _ in range(rng.randint(0, 25)))
            lines.append(rng.choice([junk if not junk.startswith('go') and not junk.startswith('perft') and not junk.startswith('tperft') else 'x' + junk, ' ' + junk, 'position', 'positionx', 'evaluate', ' isready', 'isready ', 'quit now', 'STOP', 'Eval', 'perftx 2',
                                     '\t', 'stop stop', 'tostr x']))
    return lines


HELP_FIRST = 'Available UCI commands:'


def classify(lines):
    """impl output lines of one command -> class string comparable with the oracle's"""
    out = []
    i = 0
    n = len(lines)
    perft_rows = 0
    while i < n:
        l = lines[i]
        if l == 'readyok':
            out.append('readyok')
        elif l.startswith('invalid FEN'):
            out.append('invalidfen')
        elif l.startswith('Invalid position command'):
            out.append('invalidmove')
        elif l.startswith('Invalid depth'):
            out.append('invaliddepth')
        elif l == 'No position set to evaluate':
            out.append('noposeval')
        elif l == 'No position set to start search from':
            out.append('noposgo')
        elif l == 'No position set to count perft from':
            out.append('noposperft')
        elif l.startswith('id name'):
            out.append('uci')
            while i + 1 < n and (lines[i + 1].startswith('id ') or lines[i + 1].startswith('option ') or lines[i + 1] == 'uciok'):
                i += 1
        elif l.startswith(HELP_FIRST):
            out.append('help')
            while i + 1 < n and (lines[i + 1].startswith(' * ') or lines[i + 1].startswith('Other available')):
                i += 1
        elif re.match(r'^[a-h][1-8][a-h][1-8][nbrq]?: \d+$', l):
            perft_rows += 1
        elif l.startswith('total:'):
            out.append('perft:%s:%d' % (l.split(':')[1].strip(), perft_rows))
            perft_rows = 0
        elif l.startswith('total material-changing moves:'):
            out.append('tperft:%s:%d' % (l.split(':')[1].strip(), perft_rows))
            perft_rows = 0
        elif l.startswith('gamePhaseFactor:'):
            pass
        elif re.match(r'^-?\d+$', l):
            out.append('eval:' + l)
        elif l.startswith('info '):
            pass
        elif l.startswith('bestmove'):
            out.append('search:0000' if l.split()[1] == '0000' else 'search:move')
        elif l == '' or any(ord(ch) > 127 for ch in l) or l.startswith('  ┃') or l.startswith('━━') or l.startswith('#') or 'King:' in l or l.startswith('En passant') or l.startswith('<nil>') or l.startswith('%!v'):
            if 'tostr' not in out:
                out.append('tostr')
        else:
            out.append('?' + l[:40])
        i += 1
    return ','.join(out)


def run_script(lines, model, timeout=30):
    """Runs the script on the real engine; after every command an `isready` brackets its output.
    model: per-line class strings of the oracle (to know whether a search is expected).  Returns (per-line impl classes, problem or None)."""
    e = uci.Engine()
    if not e.ready():
        e.kill()
        return [], 'engine does not answer the first isready'
    res = []
    problem = None
    for idx, l in enumerate(lines):
        n0 = len(e.lines)
        if not e.send(l):
            problem = 'engine gone before line %d' % idx
            break
        if l == 'quit':
            break
        exp = model[idx] if idx < len(model) else ''
        if exp.startswith('search'):
            i, died = e.read_until(lambda x: x.startswith('bestmove'), timeout, start=n0)
            if i is None:
                problem = 'no bestmove for line %d (%r): %s' % (idx, l, 'engine died: ' + e.stderr_text()[-300:] if died else 'timeout')
                break
        n1 = len(e.lines)
        if not e.send('isready'):
            problem = 'engine gone after line %d (%r): %s' % (idx, l, e.stderr_text()[-300:])
            break
        i, died = e.read_until(lambda x: x == 'readyok', timeout, start=n0 if l != 'isready' else n1)
        if l == 'isready':
            # the command itself answers once, our bracket a second time
            i2, died = e.read_until(lambda x: x == 'readyok', timeout, start=(i + 1) if i is not None else n1)
            i = i2
        if i is None:
            problem = 'no readyok after line %d (%r): %s' % (idx, l, ('engine died: ' + e.stderr_text()[-300:]) if died or not e.alive() else 'timeout')
            break
        chunk = e.lines[n0:i]
        if l == 'isready':
            chunk = e.lines[n0:i]        # contains the command's own readyok
        res.append(classify(chunk))
    code = e.close()
    return res, problem
