#!/bin/sh
# Extract the Coq model to OCaml and build the oracle binary in /verif/build/oracle.
set -e
mkdir -p /verif/build/oracle
cd /verif/build/oracle
rm -f *.ml *.mli *.cmi *.cmx *.o
coqc -R /verif/coq Magog /verif/coq/Extract.v
rm -f Extract.ml Extract.mli
cp /verif/oracle/drv.ml .
ocamlfind ocamlopt -package unix -linkpkg -w -a $(ocamlfind ocamldep -sort *.mli *.ml) -o oracle.new
mv oracle.new oracle
