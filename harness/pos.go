package main

import (
	"fmt"
	"os"
	"regexp"
	"sort"
	"strings"

	"macsmol/magog/engine"
)

// ---------- position sources ----------

var corpusFens = []string{
	"r3k2r/p1ppqpb1/bn2pnp1/3PN3/1p2P3/2N2Q1p/PPPBBPPP/R3K2R w KQkq - 0 1",
	"8/2p5/3p4/KP5r/1R3p1k/8/4P1P1/8 w - - 0 1",
	"r3k2r/Pppp1ppp/1b3nbN/nP6/BBP1P3/q4N2/Pp1P2PP/R2Q1RK1 w kq - 0 1",
	"rnbq1k1r/pp1Pbppp/2p5/8/2B5/8/PPP1NnPP/RNBQK2R w KQ - 1 8",
	"r4rk1/1pp1qppp/p1np1n2/2b1p1B1/2B1P1b1/P1NP1N2/1PP1QPPP/R4RK1 w - - 0 10",
	"n1n5/PPPk4/8/8/8/8/4Kppp/5N1N b - - 0 1",
	"8/8/8/2k5/2pP4/8/B7/4K3 b - d3 0 3",
	"8/8/8/8/k2Pp2Q/8/8/3K4 b - d3 0 1",
	"3k4/3p4/8/K1P4r/8/8/8/8 b - - 0 1",
	"8/8/4k3/8/2p5/8/B2P2K1/8 w - - 0 1",
	"r3k2r/8/3Q4/8/8/5q2/8/R3K2R b KQkq - 0 1",
	"2kr3r/p1ppqpb1/bn2Qnp1/3PN3/1p2P3/2N5/PPPBBPPP/R3K2R b KQ - 3 2",
	"rnb2k1r/pp1Pbppp/2p5/q7/2B5/8/PPPQNnPP/RNB1K2R w KQ - 3 9",
	"2r5/3pk3/8/2P5/8/2K5/8/8 w - - 5 4",
	"4k3/8/8/8/8/8/8/R3K2R w KQ - 0 1",
	"r3k2r/8/8/8/8/8/8/4K3 b kq - 0 1",
	"4k3/1P6/8/8/8/8/K7/8 w - - 0 1",
	"8/P1k5/K7/8/8/8/8/8 w - - 0 1",
	"K1k5/8/P7/8/8/8/8/8 w - - 0 1",
	"8/k1P5/8/1K6/8/8/8/8 w - - 0 1",
	"8/8/2k5/5q2/5n2/8/5K2/8 b - - 0 1",
	"QQQQQQQk/8/8/8/8/8/6PP/QQQQQQ1K w - - 0 1",
	"qqqqqqqK/8/8/8/8/8/6pp/qqqqqq1k b - - 0 1",
	"4k3/8/8/3pP3/8/8/8/4K3 w - d6 0 2",
	"4k3/8/8/8/3Pp3/8/8/4K3 b - d3 0 2",
	"rnbqkbnr/ppp1p1pp/8/3pPp2/8/8/PPPP1PPP/RNBQKBNR w KQkq f6 0 3",
}

// the FENs of the repository's own perft tests, read from the test source at run time
func suiteFens() []string {
	src, err := os.ReadFile("/repo/engine/movegen_test.go")
	if err != nil {
		return nil
	}
	re := regexp.MustCompile(`\{"([^"]+ [wb] [KQkq-]+ [a-h1-8-]+ \d+ \d+)"`)
	var out []string
	seen := map[string]bool{}
	for _, m := range re.FindAllStringSubmatch(string(src), -1) {
		if !seen[m[1]] {
			seen[m[1]] = true
			out = append(out, m[1])
		}
	}
	return out
}

type mv struct {
	text             string
	tactical, castle bool
	promo            bool
}

func legalMoves(gen *engine.Generator) []mv {
	var out []mv
	top := parseSnap(engine.VerifSnapshot(gen.VerifTop()))
	for _, t := range strings.Fields(engine.VerifLegal(gen)) {
		m := mv{}
		if i := strings.IndexByte(t, '@'); i >= 0 {
			t = t[:i]
		}
		if strings.HasSuffix(t, "*") {
			m.tactical = true
			t = t[:len(t)-1]
		}
		m.text = t
		m.promo = len(t) == 5
		from := (t[1]-'1')<<4 | (t[0] - 'a')
		if top.board[from]&0x3f == 32 && (int(t[2])-int(t[0]) == 2 || int(t[0])-int(t[2]) == 2) {
			m.castle = true
		}
		out = append(out, m)
	}
	return out
}

func pickMove(r *rng, ms []mv) mv {
	var castles, promos, tacts []mv
	for _, m := range ms {
		if m.castle {
			castles = append(castles, m)
		}
		if m.promo {
			promos = append(promos, m)
		}
		if m.tactical {
			tacts = append(tacts, m)
		}
	}
	if len(castles) > 0 && r.chance(1, 2) {
		return castles[r.intn(len(castles))]
	}
	if len(promos) > 0 && r.chance(1, 2) {
		return promos[r.intn(len(promos))]
	}
	if len(tacts) > 0 && r.chance(2, 5) {
		return tacts[r.intn(len(tacts))]
	}
	return ms[r.intn(len(ms))]
}

// a playout: start (FEN or "startpos") and the moves played
type game struct {
	start string
	moves []string
	fens  []string // FEN before each move and after the last one
}

func newGen(start string) (*engine.Generator, error) {
	if start == "startpos" {
		return engine.NewGenerator(), nil
	}
	return engine.NewGeneratorFromFen(start)
}

func playout(r *rng, start string, maxPlies int) game {
	g := game{start: start}
	gen, err := newGen(start)
	if err != nil {
		return g
	}
	g.fens = append(g.fens, fenOfPos(gen.VerifTop()))
	for ply := 0; ply < maxPlies; ply++ {
		ms := legalMoves(gen)
		if len(ms) == 0 {
			break
		}
		m := pickMove(r, ms)
		if err := engine.VerifApplyUci(gen, m.text); err != nil {
			break
		}
		g.moves = append(g.moves, m.text)
		g.fens = append(g.fens, fenOfPos(gen.VerifTop()))
	}
	return g
}

// ---------- synthetic placements ----------

func fenFromMap(cells map[int]byte, side string, castle, ep string, fullmove int) string {
	var sn snap
	for sq, c := range cells {
		var p byte
		switch c | 32 {
		case 'p':
			p = 1
		case 'n':
			p = 2
		case 'b':
			p = 4
		case 'r':
			p = 8
		case 'q':
			p = 16
		case 'k':
			p = 32
		}
		if c >= 'a' {
			p |= 0x40
		} else {
			p |= 0x80
		}
		sn.board[sq] = p
	}
	f := fenOfSnap(sn)
	placement := strings.Fields(f)[0]
	return fmt.Sprintf("%s %s %s %s 0 %d", placement, side, castle, ep, fullmove)
}

func sq(file, rank int) int { return rank*16 + file }

func randomPlacement(r *rng) string {
	cells := map[int]byte{}
	free := func() int {
		for {
			s := sq(r.intn(8), r.intn(8))
			if _, used := cells[s]; !used {
				return s
			}
		}
	}
	cells[free()] = 'K'
	cells[free()] = 'k'
	heavy := r.chance(1, 4) // many promoted pieces
	for _, white := range []bool{true, false} {
		nPieces := r.intn(8)
		if heavy {
			nPieces = 5 + r.intn(11)
		}
		nPawns := r.intn(9)
		if nPieces+nPawns > 15 {
			nPawns = 15 - nPieces
		}
		for i := 0; i < nPieces; i++ {
			c := "nbrq"[r.intn(4)]
			if heavy && r.chance(1, 2) {
				c = 'q'
			}
			if white {
				c -= 32
			}
			cells[free()] = c
		}
		for i := 0; i < nPawns; i++ {
			for tries := 0; tries < 20; tries++ {
				s := sq(r.intn(8), 1+r.intn(6))
				if _, used := cells[s]; !used {
					if white {
						cells[s] = 'P'
					} else {
						cells[s] = 'p'
					}
					break
				}
			}
		}
	}
	side := "w"
	if r.chance(1, 2) {
		side = "b"
	}
	return fenFromMap(cells, side, "-", "-", 1+r.intn(60))
}

// ---------- templates ----------

func templates() []string {
	var out []string
	// (a) every attacker kind on every square against both castling set-ups
	for _, white := range []bool{true, false} {
		for _, att := range "qrbnpk" {
			for s := 0; s < 64; s++ {
				asq := sq(s&7, s>>3)
				cells := map[int]byte{}
				var side string
				if white {
					cells[sq(4, 0)], cells[sq(0, 0)], cells[sq(7, 0)] = 'K', 'R', 'R'
					side = "w"
					if att != 'k' {
						cells[sq(4, 7)] = 'k'
					}
				} else {
					cells[sq(4, 7)], cells[sq(0, 7)], cells[sq(7, 7)] = 'k', 'r', 'r'
					side = "b"
					if att != 'k' {
						cells[sq(4, 0)] = 'K'
					}
				}
				if _, used := cells[asq]; used {
					continue
				}
				a := byte(att)
				if !white {
					a -= 32
				}
				if (a|32) == 'p' && (asq>>4 == 0 || asq>>4 == 7) {
					continue
				}
				cells[asq] = a
				rights := "KQ"
				if !white {
					rights = "kq"
				}
				out = append(out, fenFromMap(cells, side, rights, "-", 1))
			}
		}
	}
	// (b) en-passant with the king and a slider on the capture rank or on a diagonal through the two pawns
	for _, white := range []bool{true, false} {
		for pf := 0; pf < 8; pf++ { // file of the pawn that has just double-pushed
			for _, df := range []int{-1, 1} { // our pawn beside it
				of := pf + df
				if of < 0 || of > 7 {
					continue
				}
				rank := 4
				epRank := 5
				side, our, their, king, eking := "w", byte('P'), byte('p'), byte('K'), byte('k')
				if !white {
					rank, epRank = 3, 2
					side, our, their, king, eking = "b", 'p', 'P', 'k', 'K'
				}
				for kf := 0; kf < 8; kf++ {
					for _, sl := range "rqb" {
						for sf := 0; sf < 8; sf++ {
							if kf == pf || kf == of || sf == pf || sf == of || sf == kf {
								continue
							}
							// only interesting when both pawns stand between king and slider
							lo, hi := kf, sf
							if lo > hi {
								lo, hi = hi, lo
							}
							if !(lo < pf && pf < hi && lo < of && of < hi) {
								continue
							}
							cells := map[int]byte{sq(pf, rank): their, sq(of, rank): our, sq(kf, rank): king}
							s := byte(sl)
							if white {
								s = byte(sl) // enemy slider is black: lower case
							} else {
								s = byte(sl) - 32
							}
							cells[sq(sf, rank)] = s
							ek := sq(7-kf, 7)
							if !white {
								ek = sq(7-kf, 0)
							}
							if _, used := cells[ek]; used {
								continue
							}
							cells[ek] = eking
							out = append(out, fenFromMap(cells, side, "-", sqName(byte(sq(pf, epRank))), 5))
						}
					}
				}
			}
		}
	}
	// diagonal ep pins and ep that removes a checking pawn
	out = append(out,
		"8/8/8/1k6/3Pp3/8/8/4KQ2 b - d3 0 1", "8/8/8/8/k2Pp2Q/8/8/3K4 b - d3 0 1", "4k3/8/8/2KPp2r/8/8/8/8 w - e6 0 2",
		"8/8/8/2k5/3Pp3/8/8/4K3 b - d3 0 1", "8/8/3k4/3pP3/8/8/8/B3K3 w - d6 0 1", "5b2/8/8/2pP4/1K6/8/8/4k3 w - c6 0 1",
		"8/2k5/8/3pP3/8/8/8/2K3B1 w - d6 0 1", "k7/8/8/3pP3/8/1B6/8/K7 w - d6 0 1", "k7/b7/8/2pP4/8/4K3/8/8 w - c6 0 1")
	// (c) pinned pawns on the seventh rank that could capture-promote
	for _, white := range []bool{true, false} {
		for pf := 0; pf < 8; pf++ {
			for _, pin := range []struct{ kdf, kdr int }{{0, -1}, {-1, -1}, {1, -1}, {-1, 0}, {1, 0}} {
				for _, sl := range "rqb" {
					prank, dir := 6, 1
					our, king, eking := byte('P'), byte('K'), byte('k')
					side := "w"
					if !white {
						prank, dir = 1, -1
						our, king, eking = 'p', 'k', 'K'
						side = "b"
					}
					kf, kr := pf+pin.kdf*2, prank+pin.kdr*2*dir
					sf, sr := pf-pin.kdf, prank-pin.kdr*dir
					if kf < 0 || kf > 7 || kr < 0 || kr > 7 || sf < 0 || sf > 7 || sr < 0 || sr > 7 {
						continue
					}
					cells := map[int]byte{sq(pf, prank): our, sq(kf, kr): king}
					s := byte(sl)
					if !white {
						s -= 32
					}
					cells[sq(sf, sr)] = s
					// capture targets on the last rank
					for _, cf := range []int{pf - 1, pf + 1} {
						if cf >= 0 && cf <= 7 {
							t := byte('n')
							if !white {
								t = 'N'
							}
							if _, used := cells[sq(cf, prank+dir)]; !used {
								cells[sq(cf, prank+dir)] = t
							}
						}
					}
					ek := sq((pf+4)%8, prank-3*dir)
					if _, used := cells[ek]; used {
						continue
					}
					cells[ek] = eking
					out = append(out, fenFromMap(cells, side, "-", "-", 9))
				}
			}
		}
	}
	out = append(out, lineTemplates()...)
	out = append(out, terminalTemplates()...)
	return out
}

// ---------- the POS stream ----------

func posImplLine(fen string) string {
	return guarded(func() string {
		gen, err := engine.NewGeneratorFromFen(fen)
		if err != nil {
			return "REJ"
		}
		p := gen.VerifTop()
		snapText := engine.VerifSnapshot(p)
		legal := engine.VerifLegal(gen)
		tact := engine.VerifTactical(gen)
		cnt := engine.VerifCountMoves(p)
		tcnt := engine.VerifCountTacticalMoves(p)
		chk := 0
		if engine.VerifInCheck(p) {
			chk = 1
		}
		att := engine.VerifAttackMap(p)
		full, mat := engine.VerifEval(p)
		// quiescence evaluates a position and then generates its captures from the same object: the lists after an evaluation
		after := "same"
		if s2 := engine.VerifSnapshot(p); s2 != snapText {
			after = "snapshot-after-evaluation " + s2
		} else if l2 := engine.VerifLegal(gen); l2 != legal {
			after = "legal-after-evaluation " + l2
		} else if t2 := engine.VerifTactical(gen); t2 != tact {
			after = "tactical-after-evaluation " + t2
		} else if c2 := engine.VerifCountTacticalMoves(p); c2 != tcnt {
			after = fmt.Sprintf("tactical-count-after-evaluation %d", c2)
		}
		return fmt.Sprintf("OK|%s|%s|%s|%d|%d|%d|%s|%d|%d|%s", snapText, legal, tact, cnt, tcnt, chk, att, full, mat, after)
	})
}

// The same line for `fen`, every question asked right after the SAME question about another position `prevFen` (a near twin:
// same placement, other en-passant or castling field).  An answer must not depend on what was asked before; the expected
// line is that of `fen` alone.
func posImplLineAfter(prevFen, fen string) string {
	return guarded(func() string {
		gen0, err0 := engine.NewGeneratorFromFen(prevFen)
		gen, err := engine.NewGeneratorFromFen(fen)
		if err != nil || err0 != nil {
			return "REJ"
		}
		p0, p := gen0.VerifTop(), gen.VerifTop()
		snapText := engine.VerifSnapshot(p)
		engine.VerifLegal(gen0)
		legal := engine.VerifLegal(gen)
		engine.VerifTactical(gen0)
		tact := engine.VerifTactical(gen)
		engine.VerifCountMoves(p0)
		cnt := engine.VerifCountMoves(p)
		engine.VerifCountTacticalMoves(p0)
		tcnt := engine.VerifCountTacticalMoves(p)
		chk := 0
		engine.VerifInCheck(p0)
		if engine.VerifInCheck(p) {
			chk = 1
		}
		engine.VerifAttackMap(p0)
		att := engine.VerifAttackMap(p)
		engine.VerifEval(p0)
		full, mat := engine.VerifEval(p)
		after := "same"
		if s2 := engine.VerifSnapshot(p); s2 != snapText {
			after = "snapshot-after-evaluation " + s2
		} else if l2 := engine.VerifLegal(gen); l2 != legal {
			after = "legal-after-evaluation " + l2
		} else if t2 := engine.VerifTactical(gen); t2 != tact {
			after = "tactical-after-evaluation " + t2
		}
		return fmt.Sprintf("OK|%s|%s|%s|%d|%d|%d|%s|%d|%d|%s", snapText, legal, tact, cnt, tcnt, chk, att, full, mat, after)
	})
}

// placement of a FEN as an 8x8 grid (rank 8 first), and back
func fenGrid(fen string) (grid [8][8]byte, rest []string, ok bool) {
	f := strings.Fields(fen)
	if len(f) != 6 {
		return grid, nil, false
	}
	rows := strings.Split(f[0], "/")
	if len(rows) != 8 {
		return grid, nil, false
	}
	for r, row := range rows {
		c := 0
		for _, ch := range []byte(row) {
			if ch >= '1' && ch <= '8' {
				c += int(ch - '0')
			} else if c < 8 {
				grid[r][c] = ch
				c++
			} else {
				return grid, nil, false
			}
		}
		if c != 8 {
			return grid, nil, false
		}
	}
	return grid, f[1:], true
}
func gridFen(grid [8][8]byte, rest []string) string {
	var sb strings.Builder
	for r := 0; r < 8; r++ {
		if r > 0 {
			sb.WriteByte('/')
		}
		empty := 0
		for c := 0; c < 8; c++ {
			if grid[r][c] == 0 {
				empty++
				continue
			}
			if empty > 0 {
				sb.WriteByte(byte('0' + empty))
				empty = 0
			}
			sb.WriteByte(grid[r][c])
		}
		if empty > 0 {
			sb.WriteByte(byte('0' + empty))
		}
	}
	return sb.String() + " " + strings.Join(rest, " ")
}

// loads: the loader itself rejects a position whose side not to move is in check
func legalFen(fen string) bool {
	_, err := engine.NewGeneratorFromFen(fen)
	return err == nil
}

// "same attackers, other blockers": for a position whose mover is in check, the same position with a knight of the mover
// put on a square where it shields the king (up to two of them)
func blockerTwins(fen string) []string {
	g, err := engine.NewGeneratorFromFen(fen)
	if err != nil || !engine.VerifInCheck(g.VerifTop()) {
		return nil
	}
	grid, rest, ok := fenGrid(fen)
	if !ok {
		return nil
	}
	kn := byte('N')
	if rest[0] == "b" {
		kn = 'n'
	}
	var out []string
	for r := 0; r < 8 && len(out) < 2; r++ {
		for c := 0; c < 8 && len(out) < 2; c++ {
			if grid[r][c] != 0 {
				continue
			}
			grid[r][c] = kn
			tw := gridFen(grid, rest)
			grid[r][c] = 0
			if g2, err := engine.NewGeneratorFromFen(tw); err == nil && !engine.VerifInCheck(g2.VerifTop()) && legalFen(tw) {
				out = append(out, tw)
			}
		}
	}
	return out
}

// colour-flipped FEN: ranks reversed, piece colours, side to move, castling rights and ep square swapped
func mirrorFen(fen string) string {
	f := strings.Fields(fen)
	ranks := strings.Split(f[0], "/")
	for i, j := 0, len(ranks)-1; i < j; i, j = i+1, j-1 {
		ranks[i], ranks[j] = ranks[j], ranks[i]
	}
	swapCase := func(s string) string {
		b := []byte(s)
		for i, c := range b {
			if c >= 'a' && c <= 'z' {
				b[i] = c - 32
			} else if c >= 'A' && c <= 'Z' {
				b[i] = c + 32
			}
		}
		return string(b)
	}
	placement := swapCase(strings.Join(ranks, "/"))
	side := "w"
	if f[1] == "w" {
		side = "b"
	}
	castle := f[2]
	if castle != "-" {
		c := []byte(swapCase(castle))
		sort.Slice(c, func(i, j int) bool { return strings.IndexByte("KQkq", c[i]) < strings.IndexByte("KQkq", c[j]) })
		castle = string(c)
	}
	ep := f[3]
	if ep != "-" {
		ep = string([]byte{ep[0], '1' + ('8' - ep[1])})
	}
	// keep the move number; ply parity changes with the side, which evaluation ignores
	return fmt.Sprintf("%s %s %s %s %s %s", placement, side, castle, ep, f[4], f[5])
}

type posStats struct {
	total, fromPlayout, fromSynthetic, fromTemplate, fromSuite, inCheck, withEp, withCastle, heavy, rejected, twins int
}

func init() {
	commands["pos"] = func(args []string) {
		// verifh pos <out-prefix> <playout-games> <synthetic> [templates 0|1]
		prefix := args[0]
		games := intArg(args, 1, 20)
		synth := intArg(args, 2, 500)
		withTemplates := intArg(args, 3, 1)
		r := newRng(seedFromEnv())
		so := openStream(prefix)
		defer so.close()
		seen := map[string]bool{}
		st := posStats{}
		add := func(fen, src string) {
			key := strings.Join(strings.Fields(fen)[:4], " ")
			if seen[key] {
				return
			}
			seen[key] = true
			line := posImplLine(fen)
			if line == "REJ" {
				st.rejected++
				return
			}
			so.emit("POS\t"+fen, line)
			// mirrored twin right after it (C15 compares the two evaluations)
			mf := mirrorFen(fen)
			so.emit("POS\t"+mf, posImplLine(mf))
			// near twins (same placement and side, en-passant field or castling rights dropped), each asked right after the other
			if ff := strings.Fields(fen); len(ff) == 6 && (ff[3] != "-" || ff[2] != "-" && st.total%8 == 0) {
				tw := append([]string{}, ff...)
				if ff[3] != "-" {
					tw[3] = "-"
				} else {
					tw[2] = "-"
				}
				twin := strings.Join(tw, " ")
				if legalFen(twin) && legalFen(fen) {
					so.emit("POSH\t"+fen+"\t"+twin, posImplLineAfter(twin, fen))
					so.emit("POSH\t"+twin+"\t"+fen, posImplLineAfter(fen, twin))
					st.twins++
				}
			}
			// same attackers, other blockers: a mover in check (always when it still has castling rights, else a sample), with and
			// without a shielding knight
			if ff := strings.Fields(fen); len(ff) == 6 && (ff[2] != "-" || st.total%4 == 0) && legalFen(fen) {
				for _, twin := range blockerTwins(fen) {
					so.emit("POSH\t"+fen+"\t"+twin, posImplLineAfter(twin, fen))
					so.emit("POSH\t"+twin+"\t"+fen, posImplLineAfter(fen, twin))
					st.twins++
				}
			}
			st.total++
			switch src {
			case "playout":
				st.fromPlayout++
			case "synthetic":
				st.fromSynthetic++
			case "template":
				st.fromTemplate++
			case "suite":
				st.fromSuite++
			}
			f := strings.Fields(fen)
			if f[3] != "-" {
				st.withEp++
			}
			if f[2] != "-" {
				st.withCastle++
			}
			if parts := strings.Split(line, "|"); len(parts) > 6 && parts[6] == "1" {
				st.inCheck++
			}
		}
		for _, f := range corpusFens {
			add(f, "suite")
		}
		for _, f := range suiteFens() {
			add(f, "suite")
		}
		if withTemplates != 0 {
			for _, f := range templates() {
				add(f, "template")
			}
		}
		starts := append([]string{"startpos", "startpos", "startpos"}, corpusFens...)
		for g := 0; g < games; g++ {
			gm := playout(r, starts[r.intn(len(starts))], 60+r.intn(200))
			for i, f := range gm.fens {
				if i%3 == g%3 || i == len(gm.fens)-1 {
					add(f, "playout")
				}
			}
		}
		for i := 0; i < synth; i++ {
			add(randomPlacement(r), "synthetic")
		}
		fmt.Fprintf(os.Stderr, "STATS pos total=%d playout=%d synthetic=%d template=%d suite=%d in_check=%d with_ep=%d with_castle=%d rejected=%d asked_after_a_near_twin=%d\n",
			st.total, st.fromPlayout, st.fromSynthetic, st.fromTemplate, st.fromSuite, st.inCheck, st.withEp, st.withCastle, st.rejected, st.twins)
	}
}

func init() {
	// verifh pos1 <file with one FEN per line>: implementation line for each
	commands["pos1"] = func(args []string) {
		data, err := os.ReadFile(args[0])
		if err != nil {
			os.Exit(2)
		}
		for _, fen := range strings.Split(strings.TrimSpace(string(data)), "\n") {
			out.WriteString(posImplLine(fen))
			out.WriteByte('\n')
		}
	}
}

// (d) one slider against a king along every line of the board: for every ordered pair of squares on a common rank, file or
// diagonal (distance >= 2, everything between them empty) a queen, and a rook or bishop where the line suits it, on the first
// and the enemy king on the second, that king's side to move: it must see the check (and may not step along the line)
func lineTemplates() []string {
	var out []string
	for from := 0; from < 64; from++ {
		for to := 0; to < 64; to++ {
			ff, fr, tf, tr := from&7, from>>3, to&7, to>>3
			df, dr := tf-ff, tr-fr
			adf, adr := df, dr
			if adf < 0 {
				adf = -adf
			}
			if adr < 0 {
				adr = -adr
			}
			straight := (df == 0) != (dr == 0)
			diagonal := adf == adr && adf != 0
			if !(straight || diagonal) || (adf < 2 && adr < 2) {
				continue
			}
			for _, white := range []bool{true, false} {
				pcs := []byte{'Q'}
				if (from+to)%3 == 0 {
					if straight {
						pcs = append(pcs, 'R')
					} else {
						pcs = append(pcs, 'B')
					}
				}
				for _, pc := range pcs {
					cells := map[int]byte{}
					att, king, oking, side := pc, byte('k'), byte('K'), "b"
					if !white {
						att, king, oking, side = pc+32, 'K', 'k', "w"
					}
					cells[sq(ff, fr)] = att
					cells[sq(tf, tr)] = king
					// the attacker's own king: far from the other king, off the line
					placed := false
					for _, cand := range []int{sq(0, 0), sq(7, 7), sq(0, 7), sq(7, 0), sq(3, 0), sq(4, 7), sq(0, 3), sq(7, 4)} {
						cf, cr := cand&15, cand>>4
						if _, used := cells[cand]; used {
							continue
						}
						if iabs(cf-tf) <= 1 && iabs(cr-tr) <= 1 {
							continue
						}
						// not between the two
						if between(sq(ff, fr), sq(tf, tr), cand) {
							continue
						}
						cells[cand] = oking
						placed = true
						break
					}
					if !placed {
						continue
					}
					out = append(out, fenFromMap(cells, side, "-", "-", 7))
				}
			}
		}
	}
	return out
}

func iabs(v int) int {
	if v < 0 {
		return -v
	}
	return v
}

// (e) positions without a legal move, for both colours and on every edge: stalemates and checkmates with the lone king on each
// corner and on edge squares (the evaluation's stalemate and mate tests, the king lookup, the mobility count of the other side)
func terminalTemplates() []string {
	var out []string
	type tpl struct{ k, q, K int } // lone king, queen, other king (0..63 as file + 8*rank)
	base := []tpl{
		{63, 53, 46}, // Kh8, Qf7, Kg6: stalemate
		{63, 54, 46}, // Kh8, Qg7, Kg6: mate
		{63, 60, 46}, // Kh8, Qe8 (check along the rank), Kg6: mate? king g7/h7 attacked by Kg6 -> mate
		{56, 50, 41}, // Ka8, Qc7, Kb6: stalemate
		{56, 49, 41}, // Ka8, Qb7, Kb6: mate
		{0, 10, 17},  // Ka1, Qc2, Kb3: stalemate
		{0, 9, 17},   // Ka1, Qb2, Kb3: mate
		{7, 13, 22},  // Kh1, Qf2, Kg3: stalemate
		{7, 14, 22},  // Kh1, Qg2, Kg3: mate
		{60, 52, 44}, // Ke8, Qe7, Ke6: mate
		{4, 12, 20},  // Ke1, Qe2, Ke3: mate
	}
	for _, b := range base {
		for _, loneWhite := range []bool{false, true} {
			for _, toMoveLone := range []bool{true, false} {
				cells := map[int]byte{}
				k, q, K := byte('k'), byte('Q'), byte('K')
				if loneWhite {
					k, q, K = 'K', 'q', 'k'
				}
				cells[sq(b.k&7, b.k>>3)] = k
				cells[sq(b.q&7, b.q>>3)] = q
				cells[sq(b.K&7, b.K>>3)] = K
				side := "b"
				if loneWhite == toMoveLone {
					side = "w"
				}
				out = append(out, fenFromMap(cells, side, "-", "-", 31))
				// with a blocked pawn pair so that "no legal move" is not "bare king"
				cells[sq(2, 3)], cells[sq(2, 4)] = 'P', 'p'
				out = append(out, fenFromMap(cells, side, "-", "-", 31))
			}
		}
	}
	return out
}
