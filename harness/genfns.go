package main

import (
	"fmt"
	"go/ast"
	"go/parser"
	"go/token"
	"os"
	"path/filepath"
	"sort"
	"strings"
)

// gen-fns: a translator from the SOURCE TEXT of a few small integer functions of the engine to a deep-embedded syntax tree in
// Coq (coq/GoLang.v gives it its meaning: int64 wrap-around, truncating division that panics on zero, conversions).  It is run
// on every check; coq/GoFnsProofs.v proves each translated function equal to the hand-written model the theorems are about,
// so an edit of one of these functions in the Go source breaks a named proof.  The translator does no reasoning: anything
// outside its small subset becomes an EOpaque/SOpaque node carrying the source text.

var fnsToTranslate = []string{"calcEndtime", "killerSlot", "nextMoveWins", "closeToMate", "fullMovesToMate", "pliesToMate", "terminalNodeScore", "abs", "min", "max", "moveIndex"}

func coqStr(s string) string {
	return "\"" + strings.ReplaceAll(s, "\"", "\"\"") + "\""
}

type translator struct {
	fset *token.FileSet
	src  map[string][]byte // filename -> content
}

func (t *translator) text(n ast.Node) string {
	p, e := t.fset.Position(n.Pos()), t.fset.Position(n.End())
	b := t.src[p.Filename]
	if b == nil || p.Offset < 0 || e.Offset > len(b) {
		return "?"
	}
	return strings.Join(strings.Fields(string(b[p.Offset:e.Offset])), " ")
}

var binOps = map[token.Token]string{
	token.ADD: "OAdd", token.SUB: "OSub", token.MUL: "OMul", token.QUO: "OQuo", token.REM: "ORem",
	token.LSS: "OLt", token.GTR: "OGt", token.LEQ: "OLe", token.GEQ: "OGe", token.EQL: "OEq", token.NEQ: "ONe",
	token.LAND: "OLAnd", token.LOR: "OLOr", token.AND: "OAnd",
}
var assignOps = map[token.Token]string{token.ADD_ASSIGN: "OAdd", token.SUB_ASSIGN: "OSub", token.MUL_ASSIGN: "OMul", token.QUO_ASSIGN: "OQuo", token.REM_ASSIGN: "ORem"}

func (t *translator) expr(e ast.Expr) string {
	switch x := e.(type) {
	case *ast.ParenExpr:
		return t.expr(x.X)
	case *ast.Ident:
		return "EVar " + coqStr(x.Name)
	case *ast.BasicLit:
		if x.Kind == token.INT {
			var v int64
			if _, err := fmt.Sscan(x.Value, &v); err == nil {
				return fmt.Sprintf("EInt (%d)", v)
			}
		}
	case *ast.UnaryExpr:
		switch x.Op {
		case token.SUB:
			return "ENeg (" + t.expr(x.X) + ")"
		case token.NOT:
			return "ENot (" + t.expr(x.X) + ")"
		case token.ADD:
			return t.expr(x.X)
		}
	case *ast.BinaryExpr:
		if op, ok := binOps[x.Op]; ok {
			return "EBin " + op + " (" + t.expr(x.X) + ") (" + t.expr(x.Y) + ")"
		}
	case *ast.CallExpr:
		if _, ok := x.Fun.(*ast.SelectorExpr); ok && len(x.Args) == 0 {
			// a method call without arguments (e.g. a query of the position): a named input of the function
			return "EInput " + coqStr(t.text(e))
		}
		if f, ok := x.Fun.(*ast.Ident); ok {
			var args []string
			for _, a := range x.Args {
				args = append(args, t.expr(a))
			}
			return "ECall " + coqStr(f.Name) + " [" + strings.Join(args, "; ") + "]"
		}
	}
	return "EOpaque " + coqStr(t.text(e))
}

func opaqueExpr(s string) bool { return strings.Contains(s, "EOpaque") }

func (t *translator) block(stmts []ast.Stmt) string {
	var out []string
	for _, s := range stmts {
		out = append(out, t.stmt(s)...)
	}
	return "[" + strings.Join(out, ";\n    ") + "]"
}

func (t *translator) stmt(s ast.Stmt) []string {
	switch x := s.(type) {
	case *ast.AssignStmt:
		if len(x.Lhs) == 1 && len(x.Rhs) == 1 {
			if id, ok := x.Lhs[0].(*ast.Ident); ok {
				rhs := t.expr(x.Rhs[0])
				if x.Tok == token.ASSIGN || x.Tok == token.DEFINE {
					if opaqueExpr(rhs) && x.Tok == token.DEFINE {
						// a value that comes from outside the subset (e.g. a flag of the current position): an input of the function
						return []string{"SInput " + coqStr(id.Name) + " " + coqStr(t.text(x.Rhs[0]))}
					}
					return []string{"SAssign " + coqStr(id.Name) + " (" + rhs + ")"}
				}
				if op, ok := assignOps[x.Tok]; ok {
					return []string{"SOpAssign " + coqStr(id.Name) + " " + op + " (" + rhs + ")"}
				}
			}
		}
	case *ast.DeclStmt:
		if gd, ok := x.Decl.(*ast.GenDecl); ok && gd.Tok == token.VAR {
			var out []string
			okAll := true
			for _, sp := range gd.Specs {
				vs, ok := sp.(*ast.ValueSpec)
				if !ok {
					okAll = false
					break
				}
				for i, n := range vs.Names {
					if i < len(vs.Values) {
						out = append(out, "SAssign "+coqStr(n.Name)+" ("+t.expr(vs.Values[i])+")")
					} else {
						out = append(out, "SVar "+coqStr(n.Name))
					}
				}
			}
			if okAll {
				return out
			}
		}
	case *ast.IfStmt:
		if x.Init == nil {
			els := "[]"
			switch e := x.Else.(type) {
			case *ast.BlockStmt:
				els = t.block(e.List)
			case *ast.IfStmt:
				els = "[" + strings.Join(t.stmt(e), "; ") + "]"
			case nil:
			default:
				els = "[SOpaque " + coqStr(t.text(x.Else)) + "]"
			}
			return []string{"SIf (" + t.expr(x.Cond) + ")\n      " + t.block(x.Body.List) + "\n      " + els}
		}
	case *ast.ReturnStmt:
		if len(x.Results) == 1 {
			return []string{"SReturn (" + t.expr(x.Results[0]) + ")"}
		}
	case *ast.IncDecStmt:
		if id, ok := x.X.(*ast.Ident); ok {
			op := "OAdd"
			if x.Tok == token.DEC {
				op = "OSub"
			}
			return []string{"SOpAssign " + coqStr(id.Name) + " " + op + " (EInt (1))"}
		}
	case *ast.EmptyStmt:
		return nil
	}
	return []string{"SOpaque " + coqStr(t.text(s))}
}

func init() {
	// verifh gen-fns <engine source dir>
	commands["gen-fns"] = func(args []string) {
		dir := args[0]
		t := &translator{fset: token.NewFileSet(), src: map[string][]byte{}}
		files, _ := filepath.Glob(filepath.Join(dir, "*.go"))
		sort.Strings(files)
		found := map[string]*ast.FuncDecl{}
		for _, f := range files {
			if strings.HasSuffix(f, "_test.go") || strings.Contains(filepath.Base(f), "verif_") {
				continue
			}
			b, err := os.ReadFile(f)
			if err != nil {
				continue
			}
			t.src[f] = b
			af, err := parser.ParseFile(t.fset, f, b, 0)
			if err != nil {
				fmt.Fprintln(os.Stderr, "parse error:", err)
				os.Exit(1)
			}
			for _, d := range af.Decls {
				if fd, ok := d.(*ast.FuncDecl); ok && fd.Recv == nil && fd.Body != nil {
					found[fd.Name.Name] = fd
				}
			}
		}
		w := out
		fmt.Fprintln(w, "(* GENERATED on every run by `verifh gen-fns` from the source text of engine/*.go -- do not edit. *)")
		fmt.Fprintln(w, "From Coq Require Import ZArith List String.")
		fmt.Fprintln(w, "Require Import GoLang.")
		fmt.Fprintln(w, "Import ListNotations.")
		fmt.Fprintln(w, "Open Scope string_scope.")
		fmt.Fprintln(w, "Open Scope Z_scope.")
		for _, name := range fnsToTranslate {
			fd := found[name]
			if fd == nil {
				fmt.Fprintf(w, "Definition fn_%s : gfunc := {| gf_name := %s; gf_params := []; gf_body := [SOpaque \"function not found in the source\"] |}.\n", name, coqStr(name))
				continue
			}
			var params []string
			for _, f := range fd.Type.Params.List {
				for _, n := range f.Names {
					params = append(params, coqStr(n.Name))
				}
			}
			fmt.Fprintf(w, "Definition fn_%s : gfunc := {| gf_name := %s; gf_params := [%s]; gf_body :=\n    %s |}.\n",
				name, coqStr(name), strings.Join(params, "; "), t.block(fd.Body.List))
		}
		w.Flush()
	}
}
