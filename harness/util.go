package main

import (
	"fmt"
	"os"
	"strconv"
	"strings"

	"macsmol/magog/engine"
)

// ---- deterministic PRNG (splitmix64); every random choice of a run derives from VERIF_SEED ----

type rng struct{ s uint64 }

func newRng(seed uint64) *rng { return &rng{s: seed*0x9E3779B97F4A7C15 + 0x1234567} }
func (r *rng) next() uint64 {
	r.s += 0x9E3779B97F4A7C15
	z := r.s
	z = (z ^ (z >> 30)) * 0xBF58476D1CE4E5B9
	z = (z ^ (z >> 27)) * 0x94D049BB133111EB
	return z ^ (z >> 31)
}
func (r *rng) intn(n int) int {
	if n <= 0 {
		return 0
	}
	return int(r.next() % uint64(n))
}
func (r *rng) chance(num, den int) bool { return r.intn(den) < num }

func seedFromEnv() uint64 {
	if v := os.Getenv("VERIF_SEED"); v != "" {
		if n, err := strconv.ParseUint(v, 10, 64); err == nil {
			return n
		}
	}
	return 1
}

func intArg(args []string, i, def int) int {
	if i < len(args) {
		if n, err := strconv.Atoi(args[i]); err == nil {
			return n
		}
	}
	return def
}

// ---- snapshot text -> FEN (the engine has no FEN writer; this one is the harness's own) ----

type snap struct {
	board  [128]byte
	flags  byte
	ep     byte
	ply    int
	fields map[string]string
}

func parseSnap(s string) snap {
	var sn snap
	sn.fields = map[string]string{}
	for _, f := range strings.Fields(s) {
		kv := strings.SplitN(f, "=", 2)
		if len(kv) == 2 {
			sn.fields[kv[0]] = kv[1]
		}
	}
	b := sn.fields["B"]
	for i := 0; i < 128 && 2*i+1 < len(b); i++ {
		v, _ := strconv.ParseUint(b[2*i:2*i+2], 16, 8)
		sn.board[i] = byte(v)
	}
	v, _ := strconv.ParseUint(sn.fields["fl"], 16, 8)
	sn.flags = byte(v)
	v, _ = strconv.ParseUint(sn.fields["ep"], 16, 8)
	sn.ep = byte(v)
	sn.ply, _ = strconv.Atoi(sn.fields["ply"])
	return sn
}

func pieceChar(p byte) byte {
	var c byte
	switch p & 0x3f {
	case 1:
		c = 'p'
	case 2:
		c = 'n'
	case 4:
		c = 'b'
	case 8:
		c = 'r'
	case 16:
		c = 'q'
	case 32:
		c = 'k'
	default:
		return '?'
	}
	if p&0x80 != 0 {
		c -= 32
	}
	return c
}

func sqName(s byte) string { return string([]byte{'a' + s&15, '1' + s>>4}) }

func fenOfSnap(sn snap) string {
	var sb strings.Builder
	for r := 7; r >= 0; r-- {
		empty := 0
		for f := 0; f < 8; f++ {
			p := sn.board[r*16+f]
			if p == 0 {
				empty++
				continue
			}
			if empty > 0 {
				sb.WriteByte('0' + byte(empty))
				empty = 0
			}
			sb.WriteByte(pieceChar(p))
		}
		if empty > 0 {
			sb.WriteByte('0' + byte(empty))
		}
		if r > 0 {
			sb.WriteByte('/')
		}
	}
	if sn.flags&1 != 0 {
		sb.WriteString(" w ")
	} else {
		sb.WriteString(" b ")
	}
	c := ""
	if sn.flags&2 != 0 {
		c += "K"
	}
	if sn.flags&4 != 0 {
		c += "Q"
	}
	if sn.flags&8 != 0 {
		c += "k"
	}
	if sn.flags&16 != 0 {
		c += "q"
	}
	if c == "" {
		c = "-"
	}
	sb.WriteString(c)
	if sn.ep&0x88 != 0 {
		sb.WriteString(" -")
	} else {
		sb.WriteString(" " + sqName(sn.ep))
	}
	sb.WriteString(fmt.Sprintf(" 0 %d", sn.ply/2+1))
	return sb.String()
}

func fenOfPos(p *engine.Position) string { return fenOfSnap(parseSnap(engine.VerifSnapshot(p))) }

// ---- panic capture: an engine panic inside an accessor is an observation, not a harness crash ----

func guarded(f func() string) (res string) {
	defer func() {
		if r := recover(); r != nil {
			res = fmt.Sprintf("PANIC %v", r)
			res = strings.ReplaceAll(res, "\n", " ")
			if len(res) > 200 {
				res = res[:200]
			}
		}
	}()
	return f()
}

func hexOf(s string) string {
	const d = "0123456789abcdef"
	b := make([]byte, 0, 2*len(s))
	for i := 0; i < len(s); i++ {
		b = append(b, d[s[i]>>4], d[s[i]&15])
	}
	return string(b)
}

// two output files of a stream: requests for the oracle, and what the implementation answered
type streamOut struct {
	cases, impl, notes *os.File
	n                  int
}

func openStream(prefix string) *streamOut {
	mk := func(suffix string) *os.File {
		f, err := os.Create(prefix + suffix)
		if err != nil {
			fmt.Fprintln(os.Stderr, err)
			os.Exit(2)
		}
		return f
	}
	return &streamOut{cases: mk(".cases"), impl: mk(".impl"), notes: mk(".notes")}
}
func (s *streamOut) emit(request, implAnswer string) {
	fmt.Fprintln(s.cases, request)
	fmt.Fprintln(s.impl, implAnswer)
	s.n++
}

// note: a property-relevant observation made on the implementation alone (line number = case index, 1-based)
func (s *streamOut) note(kind, text string) {
	fmt.Fprintf(s.notes, "%d\t%s\t%s\n", s.n+1, kind, strings.ReplaceAll(text, "\n", " "))
}
func (s *streamOut) close() { s.cases.Close(); s.impl.Close(); s.notes.Close() }

// a random permutation of 0..n-1
func (r *rng) perm(n int) []int {
	p := make([]int, n)
	for i := range p {
		p[i] = i
	}
	for i := n - 1; i > 0; i-- {
		j := r.intn(i + 1)
		p[i], p[j] = p[j], p[i]
	}
	return p
}
