package main

import (
	"fmt"
	"os"
	"strings"
	"time"

	"macsmol/magog/engine"
)

// TIME stream: the deadline `go ...` computes, observed through the deadline hook, for the boundary lattice of
// clock parameters.  The root position is a stalemate, so the search thread answers at once.
const stalemateWhiteToMove = "k7/8/8/8/8/8/5q2/7K w - - 0 1"
const stalemateBlackToMove = "7k/5Q2/8/8/8/8/8/K7 b - - 0 1"

func init() {
	commands["time"] = func(args []string) {
		// verifh time <out-prefix> <random-extra>
		prefix := args[0]
		extra := intArg(args, 1, 2000)
		r := newRng(seedFromEnv())
		so := openStream(prefix)
		defer so.close()
		devnull, _ := os.OpenFile(os.DevNull, os.O_WRONLY, 0)
		realStdout := os.Stdout
		os.Stdout = devnull
		defer func() { os.Stdout = realStdout }()

		var got struct {
			ns    int64
			depth int
			seen  bool
		}
		done := make(chan struct{}, 1)
		engine.VerifDeadlineHook = func(start, end time.Time, depth int) {
			got.ns, got.depth, got.seen = int64(end.Sub(start)), depth, true
		}
		engine.VerifSyncHook = func(point, a, b int) {
			if point == engine.VsAfterBestmove {
				done <- struct{}{}
			}
		}
		run := func(side, goArgs string) {
			got.seen = false
			res := guarded(func() string {
				engine.ParseInputLine(strings.TrimSpace("go " + goArgs))
				if !got.seen {
					return "IGN"
				}
				<-done
				return fmt.Sprintf("NS %d D %d", got.ns, got.depth)
			})
			so.emit("TIME\t"+side+"\t"+goArgs, res)
		}
		vals := []int64{-1, 0, 1, 49, 50, 51, 52, 99, 100, 101, 1000, 60000, 1<<31 - 1, 4000000000000}
		mtgs := []int64{1, 2, 29, 30, 31, 1000000}
		for _, side := range []string{"w", "b"} {
			engine.VerifResetSession()
			if side == "w" {
				engine.ParseInputLine("position " + stalemateWhiteToMove)
			} else {
				engine.ParseInputLine("position " + stalemateBlackToMove)
			}
			for _, wt := range vals {
				for _, bt := range vals {
					for _, wi := range vals {
						for _, bi := range vals {
							for _, mtg := range mtgs {
								run(side, fmt.Sprintf("wtime %d btime %d winc %d binc %d movestogo %d", wt, bt, wi, bi, mtg))
							}
						}
					}
				}
			}
			// forms with defaults, movetime, depth, infinite, odd orders, malformed values
			for _, v := range vals {
				run(side, fmt.Sprintf("movetime %d", v))
				run(side, fmt.Sprintf("wtime %d", v))
				run(side, fmt.Sprintf("btime %d", v))
				run(side, fmt.Sprintf("wtime %d btime %d", v, v+7))
				run(side, fmt.Sprintf("winc %d binc %d wtime 30000 btime 20000", v, v+3))
				run(side, fmt.Sprintf("depth %d", v))
				run(side, fmt.Sprintf("movestogo %d wtime 5000 btime 6000", v))
			}
			run(side, "")
			run(side, "infinite")
			run(side, "infinite wtime 100 btime 100")
			run(side, "wtime 100 btime 100 infinite")
			run(side, "wtime")
			run(side, "wtime x")
			run(side, "movetime")
			run(side, "depth")
			run(side, "wtime 100 movetime 500 btime 3")
			run(side, "wtime 9223372036854775807 btime 9223372036854775807 winc 9223372036854775807 binc 9223372036854775807")
			run(side, "wtime 9223372036854775808")
			run(side, "wtime +5 btime -0")
			run(side, "wtime  100")
			run(side, "ponder wtime 300 btime 300")
			keys := []string{"wtime", "btime", "winc", "binc", "movestogo", "depth", "movetime", "infinite", "foo"}
			for i := 0; i < extra; i++ {
				var parts []string
				n := 1 + r.intn(6)
				for k := 0; k < n; k++ {
					key := keys[r.intn(len(keys))]
					parts = append(parts, key)
					if key != "infinite" && !r.chance(1, 25) {
						var v int64
						switch r.intn(4) {
						case 0:
							v = vals[r.intn(len(vals))]
						case 1:
							v = int64(r.intn(200000))
						case 2:
							v = int64(r.intn(120)) - 10
						default:
							v = int64(r.next() >> uint(r.intn(50)+13))
						}
						parts = append(parts, fmt.Sprint(v))
					}
				}
				run(side, strings.Join(parts, " "))
			}
		}
		engine.VerifDeadlineHook = nil
		engine.VerifSyncHook = nil
		fmt.Fprintf(os.Stderr, "STATS time total=%d\n", so.n)
	}
}
