package main

import (
	"fmt"
	"os"
	"sort"
	"strings"

	"macsmol/magog/engine"
)

func fnv64(s string) string {
	h := uint64(14695981039346656037)
	for i := 0; i < len(s); i++ {
		h ^= uint64(s[i])
		h *= 1099511628211
	}
	return fmt.Sprintf("%016x", h)
}

// positions in which a rook standing on its corner with the castling right alive can be captured (by a promoting pawn or a piece)
func cornerTemplates() []string {
	var out []string
	for _, victimWhite := range []bool{true, false} {
		for _, kingside := range []bool{true, false} {
			for _, att := range "pnbrq" {
				hr, ar := 0, 1 // home rank of the victim, rank of the attacking pawn
				if !victimWhite {
					hr, ar = 7, 6
				}
				cf := 0
				if kingside {
					cf = 7
				}
				cells := map[int]byte{}
				K, R, k := byte('K'), byte('R'), byte('k')
				a := byte(att) // attacker colour is the opposite of the victim
				if victimWhite {
					// attacker black: lower case
				} else {
					K, R, k = 'k', 'r', 'K'
					a -= 32
				}
				cells[sq(4, hr)] = K
				cells[sq(0, hr)] = R
				cells[sq(7, hr)] = R
				cells[sq(4, 7-hr)] = k
				var asq int
				switch att {
				case 'p':
					af := 1
					if kingside {
						af = 6
					}
					asq = sq(af, ar)
				case 'n':
					af := 1
					if kingside {
						af = 6
					}
					asq = sq(af, hr+2*(ar-hr))
				case 'b':
					af, arr := 3, hr+3*(ar-hr)
					if kingside {
						af = 4
					}
					asq = sq(af, arr)
				default:
					asq = sq(cf, hr+4*(ar-hr))
				}
				if _, used := cells[asq]; used {
					continue
				}
				cells[asq] = a
				side := "b"
				rights := "KQ"
				if !victimWhite {
					side = "w"
					rights = "kq"
				}
				out = append(out, fenFromMap(cells, side, rights, "-", 12))
				// the same with both sides holding rights
				cells2 := map[int]byte{}
				for s, c := range cells {
					cells2[s] = c
				}
				delete(cells2, sq(4, 7-hr))
				if victimWhite {
					cells2[sq(4, 7)], cells2[sq(0, 7)], cells2[sq(7, 7)] = 'k', 'r', 'r'
				} else {
					cells2[sq(4, 0)], cells2[sq(0, 0)], cells2[sq(7, 0)] = 'K', 'R', 'R'
				}
				out = append(out, fenFromMap(cells2, side, "KQkq", "-", 12))
			}
		}
	}
	// corner to corner: a bishop or queen on its own corner takes the rook on the diagonally opposite corner (it does not attack
	// the castling path from there), the victim still holds that right
	for _, f := range []string{
		"4k2r/8/8/8/8/8/8/B3K3 w k - 0 13", "r3k3/8/8/8/8/8/8/4K2B w q - 0 13", "b3k3/8/8/8/8/8/8/4K2R b K - 0 13", "4k2b/8/8/8/8/8/8/R3K3 b Q - 0 13",
		"4k2r/8/8/8/8/8/8/Q3K3 w k - 0 13", "r3k3/8/8/8/8/8/8/4K2Q w q - 0 13", "q3k3/8/8/8/8/8/8/4K2R b K - 0 13", "4k2q/8/8/8/8/8/8/R3K3 b Q - 0 13",
		"r3k2r/8/8/8/8/8/8/B3K2R w Kkq - 0 13", "r3k2r/8/8/8/8/8/8/R3K2B w Qkq - 0 13",
	} {
		out = append(out, f)
	}
	return out
}

func succImplLine(fen string) string {
	return guarded(func() string {
		gen, err := engine.NewGeneratorFromFen(fen)
		if err != nil {
			return "REJ"
		}
		var rows []string
		for _, m := range legalMoves(gen) {
			g2, _ := engine.NewGeneratorFromFen(fen)
			if err := engine.VerifApplyUci(g2, m.text); err != nil {
				rows = append(rows, m.text+":ERR")
				continue
			}
			snapText := engine.VerifSnapshot(g2.VerifTop())
			legal := strings.Join(strings.Fields(engine.VerifLegal(g2)), " ")
			strict := ""
			if e := engine.VerifStrictCheck(g2.VerifTop()); e != "" {
				strict = ":BOOKKEEPING"
			}
			rows = append(rows, m.text+":"+fnv64(snapText)+":"+fnv64(legal)+strict)
		}
		sort.Strings(rows)
		return "OK|" + strings.Join(rows, " ")
	})
}

func init() {
	commands["succ"] = func(args []string) {
		// verifh succ <out-prefix> <playout-games> <synthetic>
		prefix := args[0]
		games := intArg(args, 1, 10)
		synth := intArg(args, 2, 200)
		r := newRng(seedFromEnv() + 5150)
		so := openStream(prefix)
		defer so.close()
		seen := map[string]bool{}
		n := 0
		add := func(fen string) {
			if seen[fen] {
				return
			}
			seen[fen] = true
			line := succImplLine(fen)
			if line == "REJ" {
				return
			}
			so.emit("SUCC\t"+fen, line)
			n++
		}
		for _, f := range cornerTemplates() {
			add(f)
		}
		for _, f := range corpusFens {
			add(f)
		}
		for i, f := range templates() {
			if i%7 == 0 {
				add(f)
			}
		}
		for g := 0; g < games; g++ {
			gm := playout(r, "startpos", 40+r.intn(160))
			for i := g % 5; i < len(gm.fens); i += 5 {
				add(gm.fens[i])
			}
		}
		for i := 0; i < synth; i++ {
			add(randomPlacement(r))
		}
		fmt.Fprintf(os.Stderr, "STATS succ total=%d\n", n)
	}
	commands["succ1"] = func(args []string) {
		data, _ := os.ReadFile(args[0])
		for _, fen := range strings.Split(strings.TrimSpace(string(data)), "\n") {
			out.WriteString(succImplLine(fen))
			out.WriteByte('\n')
		}
	}
}
