module verifh

go 1.21.5

require macsmol/magog v0.0.0

replace macsmol/magog => /repo
