package main

import (
	"bufio"
	"fmt"
	"os"
	"strings"
	"sync"
	"time"

	"macsmol/magog/engine"
)

// SCHED stream: the search thread is held at a chosen phase through the sync hook while the command thread issues
// stop / isready sequences; every command gets a liveness deadline.  One JSON-ish line per schedule on stdout.

type phase struct {
	point, a, b int // b = -1: any
}

func (p phase) String() string {
	switch p.point {
	case engine.VsSearchEntered:
		return "entered"
	case engine.VsRootMoveDone:
		return fmt.Sprintf("rootmove(d=%d,k=%d)", p.a, p.b)
	case engine.VsIterationDone:
		return fmt.Sprintf("iteration-done(%d)", p.a)
	case engine.VsBeforeBestmove:
		return "before-bestmove"
	case engine.VsAfterBestmove:
		return "after-bestmove"
	}
	return "?"
}

type outputCollector struct {
	mu    sync.Mutex
	lines []string
	r, w  *os.File
	saved *os.File
	done  chan struct{}
}

func startCollect() *outputCollector {
	oc := &outputCollector{done: make(chan struct{})}
	oc.r, oc.w, _ = os.Pipe()
	oc.saved = os.Stdout
	os.Stdout = oc.w
	go func() {
		sc := bufio.NewScanner(oc.r)
		sc.Buffer(make([]byte, 1<<16), 1<<24)
		for sc.Scan() {
			oc.mu.Lock()
			oc.lines = append(oc.lines, sc.Text())
			oc.mu.Unlock()
		}
		close(oc.done)
	}()
	return oc
}
func (oc *outputCollector) stop() []string {
	os.Stdout = oc.saved
	oc.w.Close()
	<-oc.done
	oc.r.Close()
	return oc.lines
}
func (oc *outputCollector) snapshot() []string {
	oc.mu.Lock()
	defer oc.mu.Unlock()
	return append([]string{}, oc.lines...)
}
func (oc *outputCollector) count(prefix string) int {
	n := 0
	for _, l := range oc.snapshot() {
		if strings.HasPrefix(l, prefix) {
			n++
		}
	}
	return n
}

// run a command on the "command thread" with a liveness deadline; false = it did not return in time
func timedCommand(cmd string, d time.Duration) bool {
	done := make(chan struct{})
	go func() {
		defer func() { recover(); close(done) }()
		engine.ParseInputLine(cmd)
	}()
	select {
	case <-done:
		return true
	case <-time.After(d):
		return false
	}
}

type schedResult struct {
	fen, goCmd, at string
	cmds           []string
	holdMs         int
	blocked        []string
	bestmoves      int
	readyoks       int
	expectedReady  int
	finished       bool
	lines          []string
	afterGoOK      bool
	afterReadyOK   bool
	posUnchanged   bool
	reached        bool
	refBest        string // bestmove of `go depth D` for the deepest completed iteration D
	deepest        int
}

func waitFor(oc *outputCollector, prefix string, atLeast int, d time.Duration) bool {
	deadline := time.Now().Add(d)
	for time.Now().Before(deadline) {
		if oc.count(prefix) >= atLeast {
			return true
		}
		time.Sleep(2 * time.Millisecond)
	}
	return oc.count(prefix) >= atLeast
}

func runSchedule(fen, goCmd string, at phase, cmds []string, holdMs int) schedResult {
	res := schedResult{fen: fen, goCmd: goCmd, at: at.String(), cmds: cmds, holdMs: holdMs}
	engine.VerifResetSession()
	oc := startCollect()
	reached := make(chan struct{}, 1)
	release := make(chan struct{})
	var once sync.Once
	exited := make(chan struct{}, 8)
	engine.VerifSyncHook = func(point, a, b int) {
		if point == engine.VsAfterBestmove {
			exited <- struct{}{}
		}
		if point == at.point && (at.point != engine.VsRootMoveDone && at.point != engine.VsIterationDone || (a == at.a && (at.b < 0 || b == at.b))) {
			hit := false
			once.Do(func() { hit = true })
			if hit {
				reached <- struct{}{}
				<-release
			}
		}
	}
	engine.ParseInputLine("position fen " + fen)
	before := engine.VerifSnapshot(engine.VerifCurrent().VerifTop())
	if !timedCommand(goCmd, 2*time.Second) {
		res.blocked = append(res.blocked, goCmd)
	}
	select {
	case <-reached:
		res.reached = true
		if holdMs > 0 {
			time.Sleep(time.Duration(holdMs) * time.Millisecond)
		}
		for _, c := range cmds {
			if c == "isready" {
				res.expectedReady++
			}
			if !timedCommand(c, 300*time.Millisecond) {
				res.blocked = append(res.blocked, c)
			}
		}
		close(release)
	case <-time.After(3 * time.Second):
		// phase never reached (e.g. the search ended earlier): issue the commands anyway
		once.Do(func() {})
		for _, c := range cmds {
			if c == "isready" {
				res.expectedReady++
			}
			if !timedCommand(c, 300*time.Millisecond) {
				res.blocked = append(res.blocked, c)
			}
		}
		close(release)
	}
	// a stop was among the commands or the go is bounded: the search must end promptly
	select {
	case <-exited:
		res.finished = true
	case <-time.After(6 * time.Second):
		res.finished = false
		// rescue so that the process can go on: try a stop, then give up on this schedule
		timedCommand("stop", 300*time.Millisecond)
		select {
		case <-exited:
		case <-time.After(3 * time.Second):
		}
	}
	time.Sleep(5 * time.Millisecond)
	res.bestmoves = oc.count("bestmove")
	res.readyoks = oc.count("readyok")
	res.lines = oc.snapshot()
	// position untouched
	res.posUnchanged = engine.VerifCurrent() != nil && engine.VerifCurrent().VerifPlyIdx() == 0 && engine.VerifSnapshot(engine.VerifCurrent().VerifTop()) == before
	// engine stays usable: isready, then another go
	engine.VerifSyncHook = func(point, a, b int) {
		if point == engine.VsAfterBestmove {
			exited <- struct{}{}
		}
	}
	n := oc.count("readyok")
	res.afterReadyOK = timedCommand("isready", 500*time.Millisecond) && waitFor(oc, "readyok", n+1, time.Second)
	nb := oc.count("bestmove")
	if timedCommand("go depth 1", time.Second) {
		select {
		case <-exited:
			res.afterGoOK = waitFor(oc, "bestmove", nb+1, time.Second) && oc.count("bestmove") == nb+1
		case <-time.After(5 * time.Second):
		}
	}
	// reference: what `go depth D` plays for the deepest iteration that was completed (and reported) in the interrupted run
	deepest := 0
	for _, l := range res.lines {
		var d int
		if n, _ := fmt.Sscanf(l, "info depth %d", &d); n == 1 && d > deepest {
			deepest = d
		}
	}
	if deepest == 0 && res.reached && (at.point == engine.VsIterationDone || at.point == engine.VsRootMoveDone && at.a >= 2 || at.point == engine.VsBeforeBestmove || at.point == engine.VsAfterBestmove) {
		deepest = 1 // the depth-1 iteration was completed (it is reported only in the final summary line)
	}
	res.deepest = deepest
	if deepest >= 1 {
		engine.ParseInputLine("position fen " + fen)
		nb = oc.count("bestmove")
		if timedCommand(fmt.Sprintf("go depth %d", deepest), time.Second) {
			select {
			case <-exited:
				waitFor(oc, "bestmove", nb+1, time.Second)
				for _, l := range oc.snapshot() {
					if strings.HasPrefix(l, "bestmove ") {
						res.refBest = strings.TrimSpace(strings.TrimPrefix(l, "bestmove "))
					}
				}
			case <-time.After(20 * time.Second):
			}
		}
	}
	engine.VerifSyncHook = nil
	oc.stop()
	return res
}

func esc(s string) string { return strings.ReplaceAll(strings.ReplaceAll(s, "\\", "\\\\"), "\"", "\\\"") }

func printSched(r schedResult) {
	q := func(l []string) string {
		parts := make([]string, len(l))
		for i, s := range l {
			parts[i] = "\"" + esc(s) + "\""
		}
		return "[" + strings.Join(parts, ",") + "]"
	}
	fmt.Fprintf(out, "{\"fen\":\"%s\",\"go\":\"%s\",\"at\":\"%s\",\"cmds\":%s,\"hold_ms\":%d,\"reached\":%v,\"blocked\":%s,\"bestmoves\":%d,\"readyoks\":%d,\"expected_readyoks\":%d,\"finished\":%v,\"after_ready_ok\":%v,\"after_go_ok\":%v,\"pos_unchanged\":%v,\"deepest\":%d,\"ref_best\":\"%s\",\"lines\":%s}\n",
		esc(r.fen), esc(r.goCmd), r.at, q(r.cmds), r.holdMs, r.reached, q(r.blocked), r.bestmoves, r.readyoks, r.expectedReady, r.finished, r.afterReadyOK, r.afterGoOK, r.posUnchanged, r.deepest, r.refBest, q(r.lines))
	out.Flush()
}

func init() {
	commands["sched"] = func(args []string) {
		// verifh sched <n-positions> <max-depth> <max-k>
		npos := intArg(args, 0, 3)
		maxD := intArg(args, 1, 3)
		maxK := intArg(args, 2, 3)
		r := newRng(seedFromEnv() + 606)
		fens := []string{
			"r3k2r/p1ppqpb1/bn2pnp1/3PN3/1p2P3/2N2Q1p/PPPBBPPP/R3K2R w KQkq - 0 1",
			"8/2p5/3p4/KP5r/1R3p1k/8/4P1P1/8 w - - 0 1",
			"rnbqkbnr/pppppppp/8/8/8/8/PPPPPPPP/RNBQKBNR w KQkq - 0 1",
			"r4rk1/1pp1qppp/p1np1n2/2b1p1B1/2B1P1b1/P1NP1N2/1PP1QPPP/R4RK1 b - - 0 10",
		}
		for len(fens) < npos {
			gm := playout(r, "startpos", 20+r.intn(80))
			if len(gm.fens) > 2 {
				fens = append(fens, gm.fens[len(gm.fens)-2])
			}
		}
		cmdSets := [][]string{{"stop"}, {"isready"}, {"stop", "stop"}, {"isready", "stop"}, {"stop", "isready"}}
		count := 0
		for pi := 0; pi < npos && pi < len(fens); pi++ {
			fen := fens[pi]
			var phases []phase
			phases = append(phases, phase{engine.VsSearchEntered, 0, 0})
			for d := 1; d <= maxD; d++ {
				for k := 0; k < maxK; k++ {
					phases = append(phases, phase{engine.VsRootMoveDone, d, k})
				}
				phases = append(phases, phase{engine.VsIterationDone, d, 0})
			}
			phases = append(phases, phase{engine.VsBeforeBestmove, 0, 0}, phase{engine.VsAfterBestmove, 0, 0})
			for phi, ph := range phases {
				for ci, cs := range cmdSets {
					// not the full product for every position: rotate so that the lattice is covered across positions
					if (phi+ci+pi)%2 == 1 && npos > 1 && pi > 0 {
						continue
					}
					goCmd := "go infinite"
					hasStop := false
					for _, c := range cs {
						if c == "stop" {
							hasStop = true
						}
					}
					if !hasStop || ph.point == engine.VsBeforeBestmove || ph.point == engine.VsAfterBestmove {
						goCmd = fmt.Sprintf("go depth %d", maxD)
					}
					printSched(runSchedule(fen, goCmd, ph, cs, 0))
					count++
				}
			}
			// stop with no search ever started, and before any position
			// deadline expiry placed at a phase: hold the search thread beyond its movetime budget
			for d := 1; d <= maxD; d++ {
				for k := 0; k < maxK; k += 2 {
					printSched(runSchedule(fen, "go movetime 120", phase{engine.VsRootMoveDone, d, k}, nil, 130))
					count++
				}
				printSched(runSchedule(fen, "go movetime 120", phase{engine.VsIterationDone, d, 0}, nil, 130))
				count++
			}
		}
		fmt.Fprintf(os.Stderr, "STATS sched total=%d\n", count)
	}
	// commands with no search alive: must neither block nor crash
	commands["idle"] = func(args []string) {
		engine.VerifResetSession()
		oc := startCollect()
		var blocked []string
		for _, c := range []string{"stop", "stop", "isready", "stop", "position startpos", "stop", "isready", "go depth 1"} {
			if !timedCommand(c, 500*time.Millisecond) {
				blocked = append(blocked, c)
			}
		}
		time.Sleep(300 * time.Millisecond)
		for _, c := range []string{"stop", "stop", "isready"} {
			if !timedCommand(c, 500*time.Millisecond) {
				blocked = append(blocked, c)
			}
		}
		time.Sleep(50 * time.Millisecond)
		lines := oc.stop()
		nb, nr := 0, 0
		for _, l := range lines {
			if strings.HasPrefix(l, "bestmove") {
				nb++
			}
			if l == "readyok" {
				nr++
			}
		}
		fmt.Fprintf(out, "blocked=%d bestmoves=%d readyoks=%d\n", len(blocked), nb, nr)
	}
}
