package main

import (
	"bufio"
	"fmt"
	"os"
	"strings"
	"sync"
	"time"

	"macsmol/magog/engine"
)

// SCHED stream: the search thread is held at a chosen phase through the sync hook while the command thread issues
// stop / isready sequences; every command gets a liveness deadline.  One JSON-ish line per schedule on stdout.

type phase struct {
	point, a, b int // b = -1: any
}

func (p phase) String() string {
	switch p.point {
	case engine.VsSearchEntered:
		return "entered"
	case engine.VsRootMoveDone:
		return fmt.Sprintf("rootmove(d=%d,k=%d)", p.a, p.b)
	case engine.VsIterationDone:
		return fmt.Sprintf("iteration-done(%d)", p.a)
	case engine.VsBeforeBestmove:
		return "before-bestmove"
	case engine.VsAfterBestmove:
		return "after-bestmove"
	case engine.VsInnerMoveDone:
		if p.b >= 1000 {
			return fmt.Sprintf("inside-rootmove(d=%d,k=%d)-after-a-move-at-node-depth-%d", p.a, p.b%1000, p.b/1000+1)
		}
		return fmt.Sprintf("inside-rootmove(d=%d,k=%d)-after-first-reply", p.a, p.b)
	}
	return "?"
}

type outputCollector struct {
	mu    sync.Mutex
	lines []string
	r, w  *os.File
	saved *os.File
	done  chan struct{}
}

func startCollect() *outputCollector {
	oc := &outputCollector{done: make(chan struct{})}
	oc.r, oc.w, _ = os.Pipe()
	oc.saved = os.Stdout
	os.Stdout = oc.w
	go func() {
		sc := bufio.NewScanner(oc.r)
		sc.Buffer(make([]byte, 1<<16), 1<<24)
		for sc.Scan() {
			oc.mu.Lock()
			oc.lines = append(oc.lines, sc.Text())
			oc.mu.Unlock()
		}
		close(oc.done)
	}()
	return oc
}
func (oc *outputCollector) stop() []string {
	os.Stdout = oc.saved
	oc.w.Close()
	<-oc.done
	oc.r.Close()
	return oc.lines
}
func (oc *outputCollector) snapshot() []string {
	oc.mu.Lock()
	defer oc.mu.Unlock()
	return append([]string{}, oc.lines...)
}
func (oc *outputCollector) count(prefix string) int {
	n := 0
	for _, l := range oc.snapshot() {
		if strings.HasPrefix(l, prefix) {
			n++
		}
	}
	return n
}

// run a command on the "command thread" with a liveness deadline; false = it did not return in time
func timedCommand(cmd string, d time.Duration) bool {
	done := make(chan struct{})
	go func() {
		defer func() { recover(); close(done) }()
		engine.ParseInputLine(cmd)
	}()
	select {
	case <-done:
		return true
	case <-time.After(d):
		return false
	}
}

type schedResult struct {
	fen, goCmd, at string
	cmds           []string
	holdMs         int
	blocked        []string
	bestmoves      int
	readyoks       int
	expectedReady  int
	finished       bool
	lines          []string
	afterGoOK      bool
	afterGoNote    string
	quitFlag       bool // engine.Quit right after the schedule's commands (a `quit` among them must have been handled)
	afterReadyOK   bool
	posUnchanged   bool
	reached        bool
	refBest        string // bestmove of `go depth D` for the deepest completed iteration D
	deepest        int
}

func waitFor(oc *outputCollector, prefix string, atLeast int, d time.Duration) bool {
	deadline := time.Now().Add(d)
	for time.Now().Before(deadline) {
		if oc.count(prefix) >= atLeast {
			return true
		}
		time.Sleep(2 * time.Millisecond)
	}
	return oc.count(prefix) >= atLeast
}

// an optional earlier phase at which the search thread is merely delayed (no command is issued there): lets the time-dependent
// behaviour of the search (the 200 ms threshold of the mid-iteration PV lines) take effect before the phase under test
var schedPreHold *phase
var schedPreHoldMs = 260

func runSchedule(fen, goCmd string, at phase, cmds []string, holdMs int) schedResult {
	res := schedResult{fen: fen, goCmd: goCmd, at: at.String(), cmds: cmds, holdMs: holdMs}
	engine.VerifResetSession()
	oc := startCollect()
	reached := make(chan struct{}, 1)
	release := make(chan struct{})
	var once, preOnce sync.Once
	exited := make(chan struct{}, 8)
	engine.VerifSyncHook = func(point, a, b int) {
		if point == engine.VsAfterBestmove {
			exited <- struct{}{}
		}
		if ph := schedPreHold; ph != nil && point == ph.point && a == ph.a {
			preOnce.Do(func() { time.Sleep(time.Duration(schedPreHoldMs) * time.Millisecond) })
		}
		match := false
		if at.point == engine.VsInnerMoveDone {
			// at.b = root move index + 1000*(node depth - 1)
			match = point == engine.VsInnerMoveDone && a == at.a*1000+at.b%1000 && b == at.b/1000+1
		} else {
			match = point == at.point && (at.point != engine.VsRootMoveDone && at.point != engine.VsIterationDone || (a == at.a && (at.b < 0 || b == at.b)))
		}
		if match {
			hit := false
			once.Do(func() { hit = true })
			if hit {
				reached <- struct{}{}
				<-release
			}
		}
	}
	engine.ParseInputLine("position fen " + fen)
	before := engine.VerifSnapshot(engine.VerifCurrent().VerifTop())
	if !timedCommand(goCmd, 10*time.Second) {
		res.blocked = append(res.blocked, goCmd)
	}
	select {
	case <-reached:
		res.reached = true
		if holdMs > 0 {
			time.Sleep(time.Duration(holdMs) * time.Millisecond)
		}
		for _, c := range cmds {
			if c == "isready" {
				res.expectedReady++
			}
			if !timedCommand(c, 1500*time.Millisecond) {
				res.blocked = append(res.blocked, c)
			}
		}
		close(release)
	case <-time.After(3 * time.Second):
		// phase never reached (e.g. the search ended earlier): issue the commands anyway
		once.Do(func() {})
		for _, c := range cmds {
			if c == "isready" {
				res.expectedReady++
			}
			if !timedCommand(c, 1500*time.Millisecond) {
				res.blocked = append(res.blocked, c)
			}
		}
		close(release)
	}
	res.quitFlag = engine.Quit
	// a stop was among the commands or the go is bounded: the search must end promptly
	select {
	case <-exited:
		res.finished = true
	case <-time.After(6 * time.Second):
		res.finished = false
		// rescue so that the process can go on: try a stop, then give up on this schedule
		timedCommand("stop", 1500*time.Millisecond)
		select {
		case <-exited:
		case <-time.After(3 * time.Second):
		}
	}
	if res.finished {
		// the line is written before the after-bestmove sync point fires; the collector goroutine may still be reading it
		waitFor(oc, "bestmove", 1, 10*time.Second)
		waitFor(oc, "readyok", res.expectedReady, time.Second)
	}
	time.Sleep(2 * time.Millisecond)
	res.bestmoves = oc.count("bestmove")
	res.readyoks = oc.count("readyok")
	res.lines = oc.snapshot()
	// position untouched
	res.posUnchanged = engine.VerifCurrent() != nil && engine.VerifCurrent().VerifPlyIdx() == 0 && engine.VerifSnapshot(engine.VerifCurrent().VerifTop()) == before
	// engine stays usable: isready, then another go
	engine.VerifSyncHook = func(point, a, b int) {
		if point == engine.VsAfterBestmove {
			exited <- struct{}{}
		}
	}
	n := oc.count("readyok")
	res.afterReadyOK = timedCommand("isready", 1500*time.Millisecond) && waitFor(oc, "readyok", n+1, time.Second)
	// ... on another (non-terminal) position, and it must be served like in a fresh session: a stop token or flag left over
	// from the schedule would cut it short
	const probeFen = "r3k2r/p1ppqpb1/bn2pnp1/3PN3/1p2P3/2N2Q1p/PPPBBPPP/R3K2R w KQkq - 0 1"
	searchSummary := func(lines []string) string {
		// the final summary line and the bestmove; `info score` lines printed mid-iteration (only once a search has been running
		// for 200 ms) depend on the machine's load, not on what the session did before
		var keep []string
		last := ""
		for _, l := range lines {
			f := strings.Fields(l)
			if strings.HasPrefix(l, "bestmove") {
				if last != "" {
					keep = append(keep, last)
					last = ""
				}
				keep = append(keep, l)
			} else if strings.HasPrefix(l, "info score") && len(f) >= 6 {
				last = strings.Join(f[:6], " ") // info score cp N depth D
			}
		}
		return strings.Join(keep, " | ")
	}
	engine.ParseInputLine("position fen " + probeFen)
	nb := oc.count("bestmove")
	n0 := len(oc.snapshot())
	probe := ""
	if timedCommand("go depth 2", time.Second) {
		select {
		case <-exited:
			res.afterGoOK = waitFor(oc, "bestmove", nb+1, time.Second) && oc.count("bestmove") == nb+1
			probe = searchSummary(oc.snapshot()[n0:])
		case <-time.After(5 * time.Second):
		}
	}
	if res.afterGoOK {
		engine.ParseInputLine("position fen " + probeFen) // clears the killer table: same start as the probe above
		nb = oc.count("bestmove")
		n0 = len(oc.snapshot())
		if timedCommand("go depth 2", time.Second) {
			select {
			case <-exited:
				waitFor(oc, "bestmove", nb+1, time.Second)
				if ref := searchSummary(oc.snapshot()[n0:]); ref != probe {
					res.afterGoOK = false
					res.afterGoNote = "probe after the schedule: " + probe + "  -- the same probe once more: " + ref
				}
			case <-time.After(5 * time.Second):
			}
		}
	}
	engine.ParseInputLine("position fen " + fen)
	// reference: what `go depth D` plays for the deepest iteration that was completed (and reported) in the interrupted run
	deepest := 0
	for _, l := range res.lines {
		var d int
		if n, _ := fmt.Sscanf(l, "info depth %d", &d); n == 1 && d > deepest {
			deepest = d
		}
	}
	if deepest == 0 && res.reached && (at.point == engine.VsIterationDone || (at.point == engine.VsRootMoveDone || at.point == engine.VsInnerMoveDone) && at.a >= 2 || at.point == engine.VsBeforeBestmove || at.point == engine.VsAfterBestmove) {
		deepest = 1 // the depth-1 iteration was completed (it is reported only in the final summary line)
	}
	res.deepest = deepest
	if deepest >= 1 {
		engine.ParseInputLine("position fen " + fen)
		nb = oc.count("bestmove")
		if timedCommand(fmt.Sprintf("go depth %d", deepest), time.Second) {
			select {
			case <-exited:
				waitFor(oc, "bestmove", nb+1, time.Second)
				for _, l := range oc.snapshot() {
					if strings.HasPrefix(l, "bestmove ") {
						res.refBest = strings.TrimSpace(strings.TrimPrefix(l, "bestmove "))
					}
				}
			case <-time.After(20 * time.Second):
			}
		}
	}
	engine.VerifSyncHook = nil
	oc.stop()
	return res
}

func esc(s string) string {
	return strings.ReplaceAll(strings.ReplaceAll(s, "\\", "\\\\"), "\"", "\\\"")
}

func printSched(r schedResult) {
	q := func(l []string) string {
		parts := make([]string, len(l))
		for i, s := range l {
			parts[i] = "\"" + esc(s) + "\""
		}
		return "[" + strings.Join(parts, ",") + "]"
	}
	fmt.Fprintf(out, "{\"fen\":\"%s\",\"go\":\"%s\",\"at\":\"%s\",\"cmds\":%s,\"hold_ms\":%d,\"reached\":%v,\"blocked\":%s,\"bestmoves\":%d,\"readyoks\":%d,\"expected_readyoks\":%d,\"finished\":%v,\"after_ready_ok\":%v,\"after_go_ok\":%v,\"after_go_note\":\"%s\",\"quit_flag\":%v,\"pos_unchanged\":%v,\"deepest\":%d,\"ref_best\":\"%s\",\"lines\":%s}\n",
		esc(r.fen), esc(r.goCmd), r.at, q(r.cmds), r.holdMs, r.reached, q(r.blocked), r.bestmoves, r.readyoks, r.expectedReady, r.finished, r.afterReadyOK, r.afterGoOK, esc(r.afterGoNote), r.quitFlag, r.posUnchanged, r.deepest, r.refBest, q(r.lines))
	out.Flush()
}

func init() {
	commands["sched"] = func(args []string) {
		// verifh sched <n-positions> <max-depth> <max-k>
		npos := intArg(args, 0, 3)
		maxD := intArg(args, 1, 3)
		maxK := intArg(args, 2, 3)
		mode := "all"
		if len(args) > 3 {
			mode = args[3]
		}
		r := newRng(seedFromEnv() + 606)
		fens := []string{
			"r3k2r/p1ppqpb1/bn2pnp1/3PN3/1p2P3/2N2Q1p/PPPBBPPP/R3K2R w KQkq - 0 1",
			"8/2p5/3p4/KP5r/1R3p1k/8/4P1P1/8 w - - 0 1",
			"rnbqkbnr/pppppppp/8/8/8/8/PPPPPPPP/RNBQKBNR w KQkq - 0 1",
			"r4rk1/1pp1qppp/p1np1n2/2b1p1B1/2B1P1b1/P1NP1N2/1PP1QPPP/R4RK1 b - - 0 10",
		}
		if mode == "c11" {
			// positions whose iterations 1, 2, 3 play different moves and whose iteration 3 finds (or, cut short, seems to find) a
			// mate of exactly its depth: an acceptance test that treats mate scores specially shows here
			fens = append([]string{"4kb1r/p2n1ppp/4q3/4p1B1/4P3/1Q6/PPP2PPP/2KR4 w k - 1 1", "r1b2k1r/ppp1bppp/8/1B1Q4/5q2/2P5/PPP2PPP/R3R1K1 w - - 1 1"}, fens...)
			if npos > 4 {
				fens = append(fens[:4:4], append(append([]string{}, mateFens[:6]...), fens[4:]...)...)
			}
		}
		// roots without a legal move: the search answers `bestmove 0000` without ever polling the stop channel
		terminal := []string{"7k/5Q2/6K1/8/8/8/8/8 b - - 0 1", "7k/6Q1/6K1/8/8/8/8/8 b - - 0 1"}
		for len(fens) < npos {
			gm := playout(r, "startpos", 20+r.intn(80))
			if len(gm.fens) > 2 {
				fens = append(fens, gm.fens[len(gm.fens)-2])
			}
		}
		cmdSets := [][]string{{"stop"}, {"isready"}, {"stop", "stop"}, {"isready", "stop"}, {"stop", "isready"}}
		if mode == "c11" {
			cmdSets = [][]string{{"stop"}}
		}
		count := 0
		if mode != "c11" {
			for _, fen := range terminal {
				for _, ph := range []phase{{engine.VsSearchEntered, 0, 0}, {engine.VsBeforeBestmove, 0, 0}, {engine.VsAfterBestmove, 0, 0}} {
					for _, cs := range cmdSets {
						printSched(runSchedule(fen, "go infinite", ph, cs, 0))
						count++
					}
				}
			}
		}
		for pi := 0; pi < npos && pi < len(fens); pi++ {
			fen := fens[pi]
			var phases []phase
			phases = append(phases, phase{engine.VsSearchEntered, 0, 0})
			for d := 1; d <= maxD; d++ {
				for k := 0; k < maxK; k++ {
					phases = append(phases, phase{engine.VsRootMoveDone, d, k})
				}
				phases = append(phases, phase{engine.VsIterationDone, d, 0})
			}
			nroot := 0
			if g, err := engine.NewGeneratorFromFen(fen); err == nil {
				nroot = len(legalMoves(g))
			}
			for d := 2; d <= maxD && nroot > 1; d++ {
				phases = append(phases, phase{engine.VsRootMoveDone, d, nroot - 1})
				if mode != "c12" || d == 2 {
					phases = append(phases, phase{engine.VsInnerMoveDone, d, 0}, phase{engine.VsInnerMoveDone, d, nroot - 1})
					if d >= 3 {
						// stop noticed deeper in the tree (node depth 2 .. d-1)
						phases = append(phases, phase{engine.VsInnerMoveDone, d, 1000 * (d - 2)}, phase{engine.VsInnerMoveDone, d, 1000 + (nroot - 1)})
					}
				}
			}
			phases = append(phases, phase{engine.VsBeforeBestmove, 0, 0}, phase{engine.VsAfterBestmove, 0, 0})
			for phi, ph := range phases {
				for ci, cs := range cmdSets {
					// not the full product for every position: rotate so that the lattice is covered across positions
					if (phi+ci+pi)%2 == 1 && npos > 1 && pi > 0 {
						continue
					}
					goCmd := "go infinite"
					hasStop := false
					for _, c := range cs {
						if c == "stop" {
							hasStop = true
						}
					}
					if !hasStop || ph.point == engine.VsBeforeBestmove || ph.point == engine.VsAfterBestmove {
						goCmd = fmt.Sprintf("go depth %d", maxD)
					}
					printSched(runSchedule(fen, goCmd, ph, cs, 0))
					count++
				}
			}
			// deadline expiry placed at a phase: hold the search thread beyond its movetime budget
			for d := 1; d <= maxD && mode != "c12"; d++ {
				for k := 0; k < maxK; k += 2 {
					printSched(runSchedule(fen, "go movetime 120", phase{engine.VsRootMoveDone, d, k}, nil, 130))
					count++
				}
				printSched(runSchedule(fen, "go movetime 120", phase{engine.VsIterationDone, d, 0}, nil, 130))
				count++
				if d >= 2 && nrootOf(fen) > 1 {
					// the deadline expires INSIDE the subtree of the first / of the last root move (after its first reply)
					printSched(runSchedule(fen, "go movetime 120", phase{engine.VsInnerMoveDone, d, 0}, nil, 130))
					printSched(runSchedule(fen, "go movetime 120", phase{engine.VsInnerMoveDone, d, nrootOf(fen) - 1}, nil, 130))
					printSched(runSchedule(fen, "go movetime 120", phase{engine.VsRootMoveDone, d, nrootOf(fen) - 1}, nil, 130))
					count += 3
					if d == 3 && mode == "c11" {
						// stop in iteration 3 after the search has been running for more than 200 ms (mid-iteration PV lines are
						// printed from then on): the move played is still the one of iteration 2
						schedPreHold = &phase{engine.VsIterationDone, 2, 0}
						for _, k := range []int{nrootOf(fen) / 3, nrootOf(fen) / 2, nrootOf(fen) - 1} {
							printSched(runSchedule(fen, "go infinite", phase{engine.VsRootMoveDone, 3, k}, []string{"stop"}, 0))
							count++
						}
						schedPreHold = nil
					}
					// depth limit and time limit together: the deadline expires inside the LAST permitted iteration
					both := fmt.Sprintf("go depth %d movetime 120", d)
					printSched(runSchedule(fen, both, phase{engine.VsRootMoveDone, d, 1}, nil, 130))
					printSched(runSchedule(fen, both, phase{engine.VsRootMoveDone, d, nrootOf(fen) / 2}, nil, 130))
					printSched(runSchedule(fen, both, phase{engine.VsInnerMoveDone, d, nrootOf(fen) - 1}, nil, 130))
					count += 3
				}
			}
		}
		if mode == "c11" {
			// roots where a capturing promotion is on offer but a quiet move is best: the move ordering then searches the promotion
			// FIRST, before the best move of the previous iteration -- "the first root move is the old best move" does not hold
			for _, fen := range []string{"nr4k1/1P1q4/8/8/4N3/8/8/6K1 w - - 0 1", "6k1/8/8/4n3/8/8/1p1Q4/NR4K1 b - - 0 1",
				"1rn3k1/1P1q4/8/8/4N3/8/8/6K1 w - - 0 1", "1k4rn/4q1P1/8/8/3N4/8/8/1K6 w - - 0 1"} {
				for d := 2; d <= maxD; d++ {
					for k := 0; k < 2; k++ {
						printSched(runSchedule(fen, "go infinite", phase{engine.VsRootMoveDone, d, k}, []string{"stop"}, 0))
						count++
					}
					printSched(runSchedule(fen, "go movetime 120", phase{engine.VsRootMoveDone, d, 0}, nil, 130))
					count++
				}
			}
		}
		fmt.Fprintf(os.Stderr, "STATS sched total=%d\n", count)
	}
	// commands with no search alive: must neither block nor crash
	commands["idle"] = func(args []string) {
		engine.VerifResetSession()
		oc := startCollect()
		var blocked []string
		for _, c := range []string{"stop", "stop", "isready", "stop", "position startpos", "stop", "isready", "go depth 1"} {
			if !timedCommand(c, 1500*time.Millisecond) {
				blocked = append(blocked, c)
			}
		}
		time.Sleep(300 * time.Millisecond)
		for _, c := range []string{"stop", "stop", "isready"} {
			if !timedCommand(c, 1500*time.Millisecond) {
				blocked = append(blocked, c)
			}
		}
		time.Sleep(50 * time.Millisecond)
		lines := oc.stop()
		nb, nr := 0, 0
		for _, l := range lines {
			if strings.HasPrefix(l, "bestmove") {
				nb++
			}
			if l == "readyok" {
				nr++
			}
		}
		fmt.Fprintf(out, "blocked=%d bestmoves=%d readyoks=%d\n", len(blocked), nb, nr)
	}
}

// C16: query commands (searches run to completion or stopped at a sync phase, perft, tperft, eval, tostr, isready,
// setoption) never change the game position.  One line per trial: ok / what changed.
func init() {
	commands["queries"] = func(args []string) {
		n := intArg(args, 0, 40)
		r := newRng(seedFromEnv() + 1616)
		var fens []string
		fens = append(fens, corpusFens[:8]...)
		fens = append(fens, "7k/5Q2/6K1/8/8/8/8/8 b - - 0 1", "8/8/8/8/8/6k1/5q2/7K w - - 0 1", "k7/P7/K7/8/8/8/8/8 b - - 0 1", "7k/6Q1/6K1/8/8/8/8/8 b - - 0 1",
			"rnb1kbnr/pppp1ppp/8/4p3/6Pq/5P2/PPPPP2P/RNBQKBNR w KQkq - 1 3", "5k2/5P2/5K2/8/8/8/8/8 b - - 0 1", "6k1/5ppp/8/8/8/8/8/R3K3 w - - 0 1")
		for len(fens) < 34 {
			gm := playout(r, "startpos", 10+r.intn(120))
			fens = append(fens, gm.fens[len(gm.fens)-1])
		}
		trials, bad := 0, 0
		for t := 0; t < n; t++ {
			fen := fens[r.intn(len(fens))]
			if r.chance(1, 3) {
				// every field of the position counts, the ply counter too: move numbers beyond the killer table and near the cap
				f := strings.Fields(fen)
				if len(f) == 6 {
					f[5] = []string{"176", "177", "200", "351", "1000", "5000", "15933"}[r.intn(7)]
					fen = strings.Join(f, " ")
				}
			}
			if _, err := engine.NewGeneratorFromFen(fen); err != nil {
				continue
			}
			engine.VerifResetSession()
			oc := startCollect()
			exited := make(chan struct{}, 8)
			var holdAt phase
			var holdOnce *sync.Once
			reached := make(chan struct{}, 1)
			release := make(chan struct{})
			engine.VerifSyncHook = func(point, a, b int) {
				if point == engine.VsAfterBestmove {
					exited <- struct{}{}
				}
				if holdOnce != nil && point == holdAt.point && (point != engine.VsRootMoveDone || (a == holdAt.a && b == holdAt.b)) &&
					(point != engine.VsInnerMoveDone || (a/1000 == holdAt.a && b == holdAt.b)) {
					hit := false
					holdOnce.Do(func() { hit = true })
					if hit {
						reached <- struct{}{}
						<-release
					}
				}
			}
			setup := "position fen " + fen
			moves := ""
			if r.chance(1, 3) {
				gen, _ := engine.NewGeneratorFromFen(fen)
				ms := legalMoves(gen)
				if len(ms) > 0 {
					moves = " moves " + ms[r.intn(len(ms))].text
				}
			}
			engine.ParseInputLine(setup + moves)
			cur := engine.VerifCurrent()
			if cur == nil {
				oc.stop()
				continue
			}
			before := engine.VerifSnapshot(cur.VerifTop())
			legalBefore := engine.VerifLegal(cur)
			terminal := legalBefore == ""
			var script []string
			nq := 1 + r.intn(6)
			for q := 0; q < nq; q++ {
				kind := r.intn(11)
				if len(args) > 1 && args[1] == "search" {
					kind = 6 + r.intn(5) // searches: completed, ended by the deadline, stopped at a root or an inner node
					if r.chance(1, 5) {
						kind = 2 // and the evaluation, which works in place on the top of the position stack
					}
				}
				switch kind {
				case 0:
					script = append(script, fmt.Sprintf("perft %d", 1+r.intn(2)))
				case 1:
					script = append(script, fmt.Sprintf("tperft %d", 1+r.intn(2)))
				case 2:
					script = append(script, "eval")
				case 3:
					script = append(script, "tostr")
				case 4:
					script = append(script, "isready")
				case 5:
					script = append(script, fmt.Sprintf("setoption name currmoveLogInterval value %d", 10+r.intn(500)))
				case 6:
					script = append(script, fmt.Sprintf("go depth %d", 1+r.intn(3)))
				case 7:
					script = append(script, fmt.Sprintf("go movetime %d", []int{1, 2, 5, 15}[r.intn(4)]))
				case 8:
					if r.chance(1, 3) {
						// a stop that arrives when the search has just decided to end by itself (held before its bestmove)
						script = append(script, fmt.Sprintf("go depth %d ^", 1+r.intn(2)))
					} else {
						script = append(script, fmt.Sprintf("go infinite @%d,%d", 1+r.intn(3), r.intn(3)))
					}
				default:
					// stop noticed inside the tree: iteration d in 2..4, at a node of depth 1..d-1
					d := 2 + r.intn(3)
					script = append(script, fmt.Sprintf("go infinite #%d,%d", d, 1+r.intn(d-1)))
				}
			}
			problem := ""
			expectedBest := 0
			for _, c := range script {
				if strings.HasPrefix(c, "go") {
					expectedBest++
				}
				if strings.HasSuffix(c, " ^") {
					holdAt = phase{engine.VsBeforeBestmove, 0, 0}
					holdOnce = &sync.Once{}
					release = make(chan struct{})
					engine.ParseInputLine(strings.TrimSuffix(c, " ^"))
					select {
					case <-reached:
						engine.ParseInputLine("stop")
						close(release)
					case <-time.After(5 * time.Second):
						holdOnce.Do(func() {})
						close(release)
					}
					select {
					case <-exited:
					case <-time.After(10 * time.Second):
						problem = "search did not end"
					}
					holdOnce = nil
					waitFor(oc, "bestmove", expectedBest, 10*time.Second)
				} else if strings.HasPrefix(c, "go infinite @") || strings.HasPrefix(c, "go infinite #") {
					var d, k int
					if strings.HasPrefix(c, "go infinite @") {
						fmt.Sscanf(c, "go infinite @%d,%d", &d, &k)
						holdAt = phase{engine.VsRootMoveDone, d, k}
					} else {
						fmt.Sscanf(c, "go infinite #%d,%d", &d, &k)
						holdAt = phase{engine.VsInnerMoveDone, d, k}
					}
					holdOnce = &sync.Once{}
					release = make(chan struct{})
					engine.ParseInputLine("go infinite")
					select {
					case <-reached:
						engine.ParseInputLine("stop")
						close(release)
					case <-time.After(2 * time.Second):
						holdOnce.Do(func() {})
						engine.ParseInputLine("stop")
						close(release)
					}
					select {
					case <-exited:
					case <-time.After(10 * time.Second):
						problem = "search did not end after stop"
					}
					holdOnce = nil
					waitFor(oc, "bestmove", expectedBest, 10*time.Second)
				} else if strings.HasPrefix(c, "go") {
					engine.ParseInputLine(c)
					select {
					case <-exited:
					case <-time.After(20 * time.Second):
						problem = "no bestmove for " + c
					}
					waitFor(oc, "bestmove", expectedBest, 10*time.Second)
				} else {
					engine.ParseInputLine(c)
				}
				if problem != "" {
					break
				}
				if engine.VerifCurrent().VerifPlyIdx() != 0 {
					problem = "ply index of the position stack is not back to zero after `" + c + "`"
					break
				}
				if engine.VerifSnapshot(engine.VerifCurrent().VerifTop()) != before {
					problem = "game position changed by `" + c + "`"
					break
				}
			}
			if problem == "" && engine.VerifLegal(engine.VerifCurrent()) != legalBefore {
				problem = "legal moves differ after the queries"
			}
			// a subsequent search behaves as in a session that only set the position
			var lateLines, freshLines []string
			if problem == "" && !terminal {
				n0 := len(oc.snapshot())
				nb0 := oc.count("bestmove")
				engine.ParseInputLine("go depth 2")
				select {
				case <-exited:
				case <-time.After(20 * time.Second):
					problem = "no bestmove for the probe search"
				}
				waitFor(oc, "bestmove", nb0+1, 10*time.Second)
				lateLines = oc.snapshot()[n0:]
			}
			engine.VerifSyncHook = nil
			oc.stop()
			if problem == "" && !terminal {
				engine.VerifResetSession()
				oc2 := startCollect()
				engine.VerifSyncHook = func(point, a, b int) {
					if point == engine.VsAfterBestmove {
						exited <- struct{}{}
					}
				}
				engine.ParseInputLine(setup + moves)
				engine.ParseInputLine("go depth 2")
				select {
				case <-exited:
				case <-time.After(20 * time.Second):
				}
				waitFor(oc2, "bestmove", 1, 10*time.Second)
				engine.VerifSyncHook = nil
				freshLines = oc2.stop()
				pick := func(ls []string) string {
					for i := len(ls) - 1; i >= 0; i-- {
						if strings.HasPrefix(ls[i], "bestmove") {
							return ls[i]
						}
					}
					return ""
				}
				score := func(ls []string) string {
					for i := len(ls) - 1; i >= 0; i-- {
						if strings.HasPrefix(ls[i], "info score") {
							f := strings.Fields(ls[i])
							if len(f) > 3 {
								return f[2] + " " + f[3]
							}
						}
					}
					return ""
				}
				if pick(lateLines) != pick(freshLines) || score(lateLines) != score(freshLines) {
					// killer moves legitimately survive between two searches of one position (only `position` clears them),
					// so node counts may differ; the move and the score of a depth-2 search must not
					problem = fmt.Sprintf("search after the queries differs from a fresh session: %q/%q vs %q/%q", pick(lateLines), score(lateLines), pick(freshLines), score(freshLines))
				}
			}
			trials++
			status := "ok"
			if problem != "" {
				status = "BAD " + problem
				bad++
			}
			fmt.Fprintf(out, "%s\t%s%s\t%s\n", status, setup, moves, strings.Join(script, "; "))
		}
		fmt.Fprintf(os.Stderr, "STATS queries total=%d bad=%d\n", trials, bad)
	}
}

func nrootOf(fen string) int {
	if g, err := engine.NewGeneratorFromFen(fen); err == nil {
		return len(legalMoves(g))
	}
	return 0
}

func init() {
	// verifh sched1 <fen> <go cmd> <point> <a> <b> <hold_ms> [cmd ...]   -- one schedule, for replays
	commands["sched1"] = func(args []string) {
		if len(args) < 6 {
			fmt.Fprintln(os.Stderr, "usage: sched1 fen go point a b hold [cmds]")
			os.Exit(2)
		}
		ph := phase{intArg(args, 2, 1), intArg(args, 3, 0), intArg(args, 4, 0)}
		printSched(runSchedule(args[0], args[1], ph, args[6:], intArg(args, 5, 0)))
	}
	// verifh time1 <w|b> <go arguments>
	commands["time1"] = func(args []string) {
		devnull, _ := os.OpenFile(os.DevNull, os.O_WRONLY, 0)
		realStdout := os.Stdout
		os.Stdout = devnull
		var ns int64
		var depth int
		seen := false
		done := make(chan struct{}, 1)
		engine.VerifDeadlineHook = func(start, end time.Time, d int) { ns, depth, seen = int64(end.Sub(start)), d, true }
		engine.VerifSyncHook = func(point, a, b int) {
			if point == engine.VsAfterBestmove {
				done <- struct{}{}
			}
		}
		engine.VerifResetSession()
		if args[0] == "w" {
			engine.ParseInputLine("position " + stalemateWhiteToMove)
		} else {
			engine.ParseInputLine("position " + stalemateBlackToMove)
		}
		res := guarded(func() string {
			engine.ParseInputLine(strings.TrimSpace("go " + strings.Join(args[1:], " ")))
			if !seen {
				return "IGN"
			}
			<-done
			return fmt.Sprintf("NS %d D %d", ns, depth)
		})
		os.Stdout = realStdout
		fmt.Fprintln(out, res)
	}
}

func init() {
	// verifh rego: a `go` accepted while the previous search thread is between its bestmove line and its exit (UCI allows the
	// next go as soon as bestmove was seen); the new search must be stoppable and answer exactly once
	commands["rego"] = func(args []string) {
		summary := func(lines []string) string {
			var keep []string
			for _, l := range lines {
				f := strings.Fields(l)
				if strings.HasPrefix(l, "bestmove") {
					keep = append(keep, l)
				} else if strings.HasPrefix(l, "info depth") && len(f) >= 6 {
					keep = append(keep, strings.Join(f[:6], " "))
				}
			}
			return strings.Join(keep, " | ")
		}
		for _, second := range []string{"go infinite", "go depth 30", "go depth 5"} {
			for _, first := range []string{"go depth 2", "go infinite"} {
				engine.VerifResetSession()
				oc := startCollect()
				parked := make(chan struct{}, 1)
				release := make(chan struct{})
				var once, relOnce sync.Once
				secondGoing := false
				doRelease := func() { relOnce.Do(func() { close(release) }) }
				engine.VerifSyncHook = func(point, a, b int) {
					if point == engine.VsAfterBestmove {
						hit := false
						once.Do(func() { hit = true })
						if hit {
							parked <- struct{}{}
							<-release
						}
					}
					// the old thread runs its last statements while the new search is in the middle of its work
					if secondGoing && point == engine.VsIterationDone && a == 2 {
						doRelease()
						time.Sleep(5 * time.Millisecond)
					}
				}
				status := "ok"
				engine.ParseInputLine("position startpos")
				engine.ParseInputLine(first)
				if first == "go infinite" {
					time.Sleep(30 * time.Millisecond)
					engine.ParseInputLine("stop")
				}
				select {
				case <-parked:
				case <-time.After(10 * time.Second):
					status = "first search did not finish"
				}
				if status == "ok" {
					waitFor(oc, "bestmove", 1, 5*time.Second)
					engine.ParseInputLine("position startpos moves e2e4")
					n0 := len(oc.snapshot())
					secondGoing = true
					if !timedCommand(second, 2*time.Second) {
						status = "second go blocked"
					}
					time.Sleep(30 * time.Millisecond)
					doRelease() // at the latest now
					runningSeen := engine.VerifSearchRunning()
					if second == "go depth 5" {
						// not stopped: its analysis must be the one of a fresh session
						if !waitFor(oc, "bestmove", 2, 20*time.Second) {
							status = "the second search did not answer"
						} else {
							got := summary(oc.snapshot()[n0:])
							time.Sleep(20 * time.Millisecond)
							engine.VerifSyncHook = nil
							engine.VerifResetSession()
							engine.ParseInputLine("position startpos moves e2e4")
							n1 := len(oc.snapshot())
							engine.ParseInputLine("go depth 5")
							waitFor(oc, "bestmove", 3, 20*time.Second)
							time.Sleep(20 * time.Millisecond)
							if ref := summary(oc.snapshot()[n1:]); ref != got {
								status = "analysis of the second go differs from a fresh session: " + got + "  -- fresh: " + ref
							}
						}
						oc.stop()
						fmt.Fprintf(out, "%s\t%s\t%s\n", status, first, second)
						continue
					}
					if !timedCommand("stop", 2*time.Second) {
						status = "stop blocked"
					}
					if !waitFor(oc, "bestmove", 2, 6*time.Second) {
						status = fmt.Sprintf("the second search did not answer within 6 s after stop (running flag seen by the command thread while it searched: %v, stop request pending: %d)", runningSeen, engine.VerifStopPending())
						// rescue
						for i := 0; i < 20 && oc.count("bestmove") < 2; i++ {
							engine.ParseInputLine("stop")
							time.Sleep(100 * time.Millisecond)
						}
						if oc.count("bestmove") < 2 {
							// the search cannot be ended any more: report and leave (nothing else can run in this process)
							oc.stop()
							fmt.Fprintf(out, "%s\t%s\t%s\n", status, first, second)
							out.Flush()
							os.Exit(0)
						}
					} else if oc.count("bestmove") != 2 {
						status = fmt.Sprintf("%d bestmove lines for two go commands", oc.count("bestmove"))
					}
				} else {
					doRelease()
				}
				time.Sleep(20 * time.Millisecond)
				engine.VerifSyncHook = nil
				oc.stop()
				fmt.Fprintf(out, "%s\t%s\t%s\n", status, first, second)
			}
		}
	}
}
