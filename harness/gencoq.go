package main

import (
	"macsmol/magog/engine"
)

func genCoq() {
	out.WriteString("(* GENERATED on every run by `verifh gen-coq` from the built engine (tag verif). Do not edit. *)\n")
	out.WriteString("From Coq Require Import ZArith List String.\nImport ListNotations.\nOpen Scope Z_scope.\n")
	engine.VerifGenCoq(func(s string) { out.WriteString(s); out.WriteByte('\n') })
}
