package main

import (
	"fmt"
	"os"
	"strings"

	"macsmol/magog/engine"
)

// The LAZY stream: the windowed static evaluation LazyEvaluate(pos, depth, alpha, beta) -- the stand-pat value of every
// quiescence node -- asked directly, over a lattice of windows placed around the position's own material score, its full
// score, zero and the lazy margin.  The model's Eval.lazy_eval answers the same requests.  Quiescence is fail-hard, so two
// answers are the same to the search exactly when they are equal after clamping into [alpha, beta]; the check compares that.

// stalemates in which the stalemated side is less than the lazy margin behind (king in front of a pawn on the seventh)
func smallStalemates() []string {
	var out []string
	for f := 0; f < 8; f++ {
		for _, white := range []bool{false, true} {
			for v := 0; v < 3; v++ {
				cells := map[int]byte{}
				k, p, K, side := byte('k'), byte('P'), byte('K'), "b"
				r8, r7, r6 := 7, 6, 5
				if white {
					k, p, K, side = 'K', 'p', 'k', "w"
					r8, r7, r6 = 0, 1, 2
				}
				cells[sq(f, r8)], cells[sq(f, r7)], cells[sq(f, r6)] = k, p, K
				bf := (f + 4) % 8
				switch v {
				case 1: // a blocked pawn pair elsewhere: material one pawn apart
					cells[sq(bf, 3)], cells[sq(bf, 4)] = 'P', 'p'
				case 2: // and a second blocked pair: other piece-square terms, same material balance
					cells[sq(bf, 3)], cells[sq(bf, 4)] = 'P', 'p'
					cells[sq((bf+1)%8, 2)], cells[sq((bf+1)%8, 3)] = 'P', 'p'
				}
				out = append(out, fenFromMap(cells, side, "-", "-", 40))
			}
		}
	}
	return out
}

func lazyLine(fen string, depth, alpha, beta int) string {
	return guarded(func() string {
		gen, err := engine.NewGeneratorFromFen(fen)
		if err != nil {
			return "REJ"
		}
		p := gen.VerifTop()
		before := engine.VerifSnapshot(p)
		term := 0
		if engine.VerifLegal(gen) == "" {
			term = 1
			if engine.VerifInCheck(p) {
				term = 2
			}
		}
		// the windowed evaluation first, on a position nothing else has evaluated: the node is the generator's own stack entry and
		// quiescence goes on to generate its captures from it
		v := engine.LazyEvaluate(p, depth, alpha, beta)
		kept := "same"
		if after := engine.VerifSnapshot(p); after != before {
			kept = "position-changed-by-the-evaluation " + after
		}
		// the engine's own full evaluation at this depth and its cheap part (on a fresh copy), to judge a difference by the property itself
		full, ms := 0, 0
		if g2, err := engine.NewGeneratorFromFen(fen); err == nil {
			full = engine.LazyEvaluate(g2.VerifTop(), depth, -100000000, 100000000)
		}
		if g3, err := engine.NewGeneratorFromFen(fen); err == nil {
			_, ms = engine.VerifEval(g3.VerifTop())
		}
		return fmt.Sprintf("OK|%d|%d|%d|%s|%d", v, full, ms, kept, term)
	})
}

func init() {
	// verifh lazy <out-prefix> <positions>
	commands["lazy"] = func(args []string) {
		prefix := args[0]
		n := intArg(args, 1, 300)
		r := newRng(seedFromEnv() + 991)
		so := openStream(prefix)
		defer so.close()
		var fens []string
		fens = append(fens, smallStalemates()...)
		fens = append(fens, terminalTemplates()...)
		fens = append(fens, corpusFens...)
		tp := templates()
		for i := 0; i < len(tp) && i < n/3; i++ {
			fens = append(fens, tp[(i*7919)%len(tp)])
		}
		for len(fens) < n {
			gm := playout(r, "startpos", 30+r.intn(150))
			if len(gm.fens) > 0 {
				fens = append(fens, gm.fens[r.intn(len(gm.fens))], gm.fens[len(gm.fens)-1])
			}
			f := randomPlacement(r)
			if _, err := engine.NewGeneratorFromFen(f); err == nil {
				fens = append(fens, f)
			}
		}
		terminal, windows := 0, 0
		for _, fen := range fens {
			gen, err := engine.NewGeneratorFromFen(fen)
			if err != nil {
				continue
			}
			p := gen.VerifTop()
			full, ms := engine.VerifEval(p)
			if engine.VerifCountMoves(p) == 0 {
				terminal++
			}
			seen := map[[2]int]bool{}
			for _, a := range []int{-100000000, ms - 321, ms - 320, ms - 1, ms, ms + 1, -1, 0, full - 1, full, full + 1, ms + 319, ms + 320, (ms + full) / 2, ms / 2} {
				for _, b := range []int{a + 1, a + 50, 100000000} {
					if b <= a || seen[[2]int{a, b}] {
						continue
					}
					seen[[2]int{a, b}] = true
					so.emit(fmt.Sprintf("LAZY\t%s\t%d\t%d\t%d", fen, 2, a, b), lazyLine(fen, 2, a, b))
					windows++
				}
			}
		}
		fmt.Fprintf(os.Stderr, "STATS lazy positions=%d without_legal_move=%d windows=%d\n", len(fens), terminal, windows)
		_ = strings.TrimSpace
	}
}
