package main

import (
	"fmt"
	"os"
	"strings"
	"sync"
	"time"

	"macsmol/magog/engine"
)

// PROTO stream: the shared state of the stop/isready/go hand-shake, step by step, against the transition system of
// coq/Protocol.v.  The search thread is parked at sync points (every poll of the stop channel is immediately preceded by one);
// the command thread issues commands only while the search thread is parked or absent, so every run is one interleaving of the
// model's labels, written out as tokens:
//   isready | other | stop (= LStopLoad LStopSend) | go (= LGoDrain LGoStore LGoSpawn) | enter | poll | complete | print | obs
// At every `obs` the harness records  running,pending,bestmoves,readyoks,interrupted,phase  (phase I/S/R: no search thread past
// its bestmove / spawned, not yet entered / inside the iterations).

type protoCtl struct {
	mu      sync.Mutex
	want    func(point, a, b int) bool
	arrived chan int
	release chan struct{}
	parked  int // sync point the search thread is parked at; 0: no thread parked
}

func (c *protoCtl) hook(point, a, b int) {
	c.mu.Lock()
	w := c.want
	c.mu.Unlock()
	// the protocol-relevant points are always parked at: entry, before running := false, after bestmove
	if point == engine.VsSearchEntered || point == engine.VsBeforeBestmove || point == engine.VsAfterBestmove || (w != nil && w(point, a, b)) {
		c.arrived <- point
		<-c.release
	}
}

func isPollPoint(p int) bool {
	return p == engine.VsRootMoveDone || p == engine.VsInnerMoveDone || p == engine.VsQuiescencePoll
}

func init() {
	// verifh proto <out-prefix> <schedules> <steps>
	commands["proto"] = func(args []string) {
		prefix := args[0]
		n := intArg(args, 1, 40)
		steps := intArg(args, 2, 30)
		r := newRng(seedFromEnv() + 1212)
		so := openStream(prefix)
		defer so.close()
		fens := []string{
			"r3k2r/p1ppqpb1/bn2pnp1/3PN3/1p2P3/2N2Q1p/PPPBBPPP/R3K2R w KQkq - 0 1",
			"rnbqkbnr/pppppppp/8/8/8/8/PPPPPPPP/RNBQKBNR w KQkq - 0 1",
			"7k/5Q2/6K1/8/8/8/8/8 b - - 0 1", // stalemate: the search never polls
			"7k/6Q1/6K1/8/8/8/8/8 b - - 0 1", // checkmate
			"8/2p5/3p4/KP5r/1R3p1k/8/4P1P1/8 w - - 0 1",
			"k7/8/8/3qrbnp/3QRBNP/8/8/K7 w - - 0 1", // capture-heavy: polls inside quiescence
		}
		polls, steptotal := 0, 0
		for sc := 0; sc < n; sc++ {
			engine.VerifResetSession()
			oc := startCollect()
			ctl := &protoCtl{arrived: make(chan int, 1), release: make(chan struct{})}
			engine.VerifSyncHook = ctl.hook
			var tokens, obs []string
			expBest, expReady := 0, 0
			alive := false // a search thread exists and has not passed its after-bestmove point
			problem := ""
			observe := func() {
				waitFor(oc, "bestmove", expBest, 5*time.Second)
				waitFor(oc, "readyok", expReady, 5*time.Second)
				running, pending, intr, ph := 0, engine.VerifStopPending(), 0, "I"
				if engine.VerifSearchRunning() {
					running = 1
				}
				if alive {
					switch ctl.parked {
					case engine.VsSearchEntered:
						ph = "S"
					case engine.VsAfterBestmove:
						ph = "I"
					default:
						ph = "R"
						if engine.VerifInterrupted() {
							intr = 1
						}
					}
				}
				tokens = append(tokens, "obs")
				obs = append(obs, fmt.Sprintf("%d,%d,%d,%d,%d,%s", running, pending, oc.count("bestmove"), oc.count("readyok"), intr, ph))
			}
			cmd := func(c string) bool {
				if !timedCommand(c, 2*time.Second) {
					problem = "command `" + c + "` did not return within 2 s"
					return false
				}
				return true
			}
			waitArrive := func() bool {
				select {
				case p := <-ctl.arrived:
					ctl.parked = p
					return true
				case <-time.After(20 * time.Second):
					problem = "search thread did not reach the next sync point within 20 s"
					return false
				}
			}
			engine.ParseInputLine("position fen " + fens[r.intn(len(fens))])
			for st := 0; st < steps && problem == ""; st++ {
				steptotal++
				k := r.intn(10)
				switch {
				case !alive && k < 5:
					// go (UCI: only when no search thread is alive)
					if r.chance(1, 3) {
						engine.ParseInputLine("position fen " + fens[r.intn(len(fens))])
					}
					g := []string{"go infinite", "go infinite", "go depth 2", "go depth 1", "go depth 3"}[r.intn(5)]
					ctl.mu.Lock()
					ctl.want = nil
					ctl.mu.Unlock()
					if !cmd(g) {
						break
					}
					tokens = append(tokens, "go")
					alive = true
					if !waitArrive() { // parks at the entry point
						break
					}
					observe()
				case !alive || k < 8:
					c := []string{"stop", "stop", "isready", "eval", "stop"}[r.intn(5)]
					if !cmd(c) {
						break
					}
					switch c {
					case "stop":
						tokens = append(tokens, "stop")
					case "isready":
						tokens = append(tokens, "isready")
						expReady++
					default:
						tokens = append(tokens, "other")
					}
					observe()
				default:
					// let the search thread go on to another sync point
					from := ctl.parked
					switch {
					case from == engine.VsSearchEntered:
						tokens = append(tokens, "enter")
					case from == engine.VsQuiescencePoll:
						tokens = append(tokens, "poll") // quiescence polls first, tests the flag afterwards
						polls++
					case from == engine.VsRootMoveDone || from == engine.VsInnerMoveDone:
						if !engine.VerifInterrupted() { // `if interrupted || deadline { break }` precedes the poll; no deadline in these go forms
							tokens = append(tokens, "poll")
							polls++
						}
					case from == engine.VsBeforeBestmove:
						tokens = append(tokens, "complete", "print")
						expBest++
					}
					if from == engine.VsAfterBestmove {
						// the thread returns; nothing shared happens any more
						alive = false
						ctl.parked = 0
						ctl.release <- struct{}{}
						time.Sleep(time.Millisecond)
						observe()
						break
					}
					countdown := []int{1, 1, 1, 2, 5, 40}[r.intn(6)]
					kind := r.intn(4)
					// a request that is pending while the thread leaves a point that is not followed by a poll: park at the very
					// next sync point, so that the poll that takes it is never an unobserved one
					nextAny := engine.VerifStopPending() > 0 && !isPollPoint(from)
					ctl.mu.Lock()
					ctl.want = func(point, a, b int) bool {
						if nextAny {
							return true
						}
						switch kind {
						case 0:
							return point == engine.VsIterationDone
						default:
							if isPollPoint(point) {
								countdown--
								return countdown <= 0
							}
							return false
						}
					}
					ctl.mu.Unlock()
					ctl.release <- struct{}{}
					if !waitArrive() {
						break
					}
					observe()
				}
			}
			// drain: let the thread finish so that the next schedule starts clean
			if alive {
				ctl.mu.Lock()
				ctl.want = nil
				ctl.mu.Unlock()
				done := make(chan struct{})
				go func() {
					for {
						select {
						case ctl.release <- struct{}{}:
						case <-ctl.arrived:
						case <-done:
							return
						}
					}
				}()
				timedCommand("stop", time.Second)
				deadline := time.Now().Add(10 * time.Second)
				for engine.VerifSearchRunning() && time.Now().Before(deadline) {
					time.Sleep(time.Millisecond)
				}
				time.Sleep(20 * time.Millisecond)
				close(done)
			}
			engine.VerifSyncHook = nil
			oc.stop()
			res := strings.Join(obs, "|")
			if problem != "" {
				res += "|PROBLEM " + problem
			}
			so.emit("PROTO\t"+strings.Join(tokens, " "), res)
		}
		fmt.Fprintf(os.Stderr, "STATS proto schedules=%d steps=%d polls_labelled=%d\n", n, steptotal, polls)
	}
}
