package main

import (
	"bytes"
	"fmt"
	"io"
	"os"
	"sort"
	"strings"

	"macsmol/magog/engine"
)

// run f with os.Stdout redirected into a buffer (the engine prints with fmt.Println)
func captureStdout(f func()) string {
	r, w, err := os.Pipe()
	if err != nil {
		return ""
	}
	saved := os.Stdout
	os.Stdout = w
	done := make(chan string)
	go func() {
		var buf bytes.Buffer
		io.Copy(&buf, r)
		done <- buf.String()
	}()
	func() {
		defer func() {
			os.Stdout = saved
			w.Close()
		}()
		f()
	}()
	return <-done
}

// `perft n` / `tperft n` through the command interpreter, output canonicalised: OK|<sorted move:count>|<total>
func perftViaCommand(fen, cmd string, depth int, pre ...string) string {
	return guarded(func() string {
		var text string
		crashed := ""
		text = captureStdout(func() {
			defer func() {
				if r := recover(); r != nil {
					crashed = fmt.Sprint(r)
				}
			}()
			engine.VerifResetSession()
			if strings.HasPrefix(fen, "startpos") {
				engine.ParseInputLine("position " + fen)
			} else {
				engine.ParseInputLine("position fen " + fen)
			}
			if len(pre) > 0 {
				// what the commands before the perft print is not part of the answer
				captureStdout(func() {
					for _, c := range pre {
						engine.ParseInputLine(c)
					}
				})
			}
			engine.ParseInputLine(fmt.Sprintf("%s %d", cmd, depth))
		})
		if crashed != "" {
			return "PANIC " + crashed
		}
		var rows []string
		total := ""
		for _, l := range strings.Split(text, "\n") {
			l = strings.TrimSpace(l)
			if l == "" {
				continue
			}
			if strings.HasPrefix(l, "total") {
				total = strings.TrimSpace(l[strings.Index(l, ":")+1:])
				continue
			}
			if strings.HasPrefix(l, "invalid FEN") {
				return "REJ"
			}
			rows = append(rows, strings.ReplaceAll(l, ": ", ":"))
		}
		sort.Strings(rows)
		return "OK|" + strings.Join(rows, " ") + "|" + total
	})
}

func init() {
	commands["perft"] = func(args []string) {
		// verifh perft <out-prefix> <positions> <depth-full> <depth-sparse>
		prefix := args[0]
		n := intArg(args, 1, 100)
		dFull := intArg(args, 2, 2)
		dSparse := intArg(args, 3, 3)
		r := newRng(seedFromEnv() + 4242)
		so := openStream(prefix)
		defer so.close()
		var fens []string
		fens = append(fens, corpusFens...)
		fens = append(fens, suiteFens()...)
		for len(fens) < n {
			gm := playout(r, "startpos", 30+r.intn(120))
			if len(gm.fens) > 0 {
				fens = append(fens, gm.fens[r.intn(len(gm.fens))], gm.fens[len(gm.fens)-1])
			}
			if r.chance(1, 2) {
				f := randomPlacement(r)
				if _, err := engine.NewGeneratorFromFen(f); err == nil {
					fens = append(fens, f)
				}
			}
		}
		// keep the order deterministic but spread over sources
		for i := 0; i < n && i < len(fens); i++ {
			fen := fens[(i*7919)%len(fens)]
			men := 0
			for _, c := range strings.Fields(fen)[0] {
				if (c >= 'a' && c <= 'z') || (c >= 'A' && c <= 'Z') {
					men++
				}
			}
			depth := dFull
			if men <= 10 {
				depth = dSparse
			}
			for d := 1; d <= depth; d++ {
				so.emit(fmt.Sprintf("PERFT\t%s\t%d", fen, d), perftViaCommand(fen, "perft", d))
				so.emit(fmt.Sprintf("TPERFT\t%s\t%d", fen, d), perftViaCommand(fen, "tperft", d))
			}
			// the same counts after query commands that must not disturb the position (same request, same expected answer)
			if i%2 == 0 {
				d := 1 + i/2%2
				so.emit(fmt.Sprintf("PERFT\t%s\t%d", fen, d), perftViaCommand(fen, "perft", d, "eval", "isready"))
				so.emit(fmt.Sprintf("TPERFT\t%s\t%d", fen, d), perftViaCommand(fen, "tperft", d, "eval", "tperft 1"))
			}
		}
		// positions given as move lists (the en-passant square then comes from ApplyUciMove, not from a FEN field): game prefixes
		// that end with a double pawn push landing beside an enemy pawn, for both colours
		emitted := 0
		for g := 0; g < 60 && emitted < 12; g++ {
			gm := playout(r, "startpos", 30+r.intn(60))
			for i, m := range gm.moves {
				if len(m) != 4 || (m[1] != '2' || m[3] != '4') && (m[1] != '7' || m[3] != '5') || m[0] != m[2] {
					continue
				}
				before := parseSnap(engineSnapOfFen(gm.fens[i]))
				from := int(m[1]-'1')<<4 | int(m[0]-'a')
				to := int(m[3]-'1')<<4 | int(m[2]-'a')
				if before.board[from]&0x3f != 1 {
					continue
				}
				enemyPawn := byte(0x41) // black pawn beside a white push
				if m[1] == '7' {
					enemyPawn = 0x81
				}
				beside := (to&15 > 0 && before.board[to-1] == enemyPawn) || (to&15 < 7 && before.board[to+1] == enemyPawn)
				if !beside {
					continue
				}
				start := "startpos moves " + strings.Join(gm.moves[:i+1], " ")
				so.emit(fmt.Sprintf("PERFT\t%s\t%d", start, 2), perftViaCommand(start, "perft", 2))
				so.emit(fmt.Sprintf("TPERFT\t%s\t%d", start, 1), perftViaCommand(start, "tperft", 1))
				emitted++
				break
			}
		}
		// the same situation from fixed FENs plus one move, on the edge files too
		for _, c := range []string{
			"4k3/3p4/8/4P3/8/8/8/4K3 b - - 0 1 moves d7d5", "4k3/p7/8/1P6/8/8/8/4K3 b - - 0 1 moves a7a5", "4k3/7p/8/6P1/8/8/8/4K3 b - - 0 1 moves h7h5",
			"4k3/8/8/8/4p3/8/3P4/4K3 w - - 0 1 moves d2d4", "4k3/8/8/8/1p6/8/P7/4K3 w - - 0 1 moves a2a4", "4k3/8/8/8/6p1/8/7P/4K3 w - - 0 1 moves h2h4",
		} {
			so.emit(fmt.Sprintf("PERFT\t%s\t%d", c, 2), perftViaCommand(c, "perft", 2))
			so.emit(fmt.Sprintf("TPERFT\t%s\t%d", c, 2), perftViaCommand(c, "tperft", 2))
		}
		// castling rights around captures on the rook corners (both sides hold all rights, files a and h open): three plies reach
		// "capture on the corner, then the castling that must be gone"
		for i, f := range cornerTemplates() {
			if strings.HasSuffix(f, " 0 13") || strings.Contains(f, " KQkq ") && (n >= 1000 || i%4 == 1) {
				so.emit(fmt.Sprintf("PERFT\t%s\t%d", f, 3), perftViaCommand(f, "perft", 3))
				so.emit(fmt.Sprintf("TPERFT\t%s\t%d", f, 3), perftViaCommand(f, "tperft", 3))
			}
		}
		fmt.Fprintf(os.Stderr, "STATS perft total=%d\n", so.n)
	}
}
