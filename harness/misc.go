package main

import (
	"fmt"
	"os"
	"strings"
	"time"

	"macsmol/magog/engine"
)

func gameImplLine(start string, moves []string) string {
	gen, err := newGen(start)
	if err != nil {
		return "REJ"
	}
	snaps := []string{engine.VerifSnapshot(gen.VerifTop())}
	res := guarded(func() string {
		for _, m := range moves {
			if err := engine.VerifApplyUci(gen, m); err != nil {
				return "BADMOVE"
			}
			snaps = append(snaps, engine.VerifSnapshot(gen.VerifTop()))
		}
		return "OK"
	})
	line := "OK|" + strings.Join(snaps, "|")
	if res != "OK" {
		line += "|" + res
	}
	return line
}

func init() {
	commands["game1"] = func(args []string) {
		data, _ := os.ReadFile(args[0])
		for _, l := range strings.Split(strings.TrimSpace(string(data)), "\n") {
			parts := strings.SplitN(l, "\t", 2)
			var moves []string
			if len(parts) > 1 && strings.TrimSpace(parts[1]) != "" {
				moves = strings.Fields(parts[1])
			}
			out.WriteString(gameImplLine(parts[0], moves))
			out.WriteByte('\n')
		}
	}
	commands["pos1m"] = func(args []string) {
		data, _ := os.ReadFile(args[0])
		for _, fen := range strings.Split(strings.TrimSpace(string(data)), "\n") {
			out.WriteString(posImplLine(mirrorFen(fen)))
			out.WriteByte('\n')
		}
	}
	// every move string: the engine's printer and parser
	commands["moves"] = func(args []string) {
		so := openStream(args[0])
		defer so.close()
		r := newRng(seedFromEnv() + 5)
		parse := func(s string) string {
			return guarded(func() string {
				f, t, p, err := engine.VerifParseMove(s)
				if err != nil {
					return "ERR"
				}
				return fmt.Sprintf("OK %d %d %d", f, t, p)
			})
		}
		promos := []byte{0, 2, 4, 8, 16}
		for fi := 0; fi < 64; fi++ {
			for ti := 0; ti < 64; ti++ {
				for _, pr := range promos {
					f := byte((fi>>3)<<4 | fi&7)
					t := byte((ti>>3)<<4 | ti&7)
					s := engine.VerifMoveString(f, t, pr)
					res := parse(s)
					if res != fmt.Sprintf("OK %d %d %d", f, t, pr) {
						so.note("roundtrip", fmt.Sprintf("move (%d,%d,%d) prints as %q which parses as %s", f, t, pr, s, res))
					}
					so.emit("MOVE\t"+hexOf(s), res)
					if pr != 0 {
						u := s[:4] + strings.ToUpper(s[4:])
						res := parse(u)
						if res != fmt.Sprintf("OK %d %d %d", f, t, pr) {
							so.note("roundtrip-upper", fmt.Sprintf("move (%d,%d,%d) as %q parses as %s", f, t, pr, u, res))
						}
						so.emit("MOVE\t"+hexOf(u), res)
					}
				}
			}
		}
		junk := []string{"", "e2", "e2e", "e2e9", "i2e4", "e0e4", "e2e4x", "e2e4k", "e2e4p", "e2e4qq", "E2E4", "e2-e4", "0000", "e2e4 ", " e2e4", "e7e8Q", "e7e8N", "a1h8b", "h8a1r", "e2e4\t", "é2e4"}
		for _, s := range junk {
			so.emit("MOVE\t"+hexOf(s), parse(s))
		}
		for i := 0; i < 3000; i++ {
			l := r.intn(7)
			b := make([]byte, l)
			for k := range b {
				b[k] = "abcdefgh12345678nbrqkpNBRQi09 x"[r.intn(31)]
			}
			so.emit("MOVE\t"+hexOf(string(b)), parse(string(b)))
		}
		fmt.Fprintf(os.Stderr, "STATS moves total=%d\n", so.n)
	}
	// a rejected FEN (alone or followed by a move list) leaves the current position untouched and says `invalid FEN`
	commands["fenkeep"] = func(args []string) {
		so := openStream(args[0])
		defer so.close()
		n := intArg(args, 1, 300)
		r := newRng(seedFromEnv() + 99)
		var valid []string
		valid = append(valid, corpusFens...)
		for g := 0; g < 20; g++ {
			gm := playout(r, "startpos", 60+r.intn(100))
			valid = append(valid, gm.fens[len(gm.fens)/2], gm.fens[len(gm.fens)-1])
		}
		for i := 0; i < n; i++ {
			base := valid[r.intn(len(valid))]
			if _, err := engine.NewGeneratorFromFen(base); err != nil {
				continue
			}
			bad := mutate(r, valid[r.intn(len(valid))])
			if i%7 == 0 {
				bad = fenBoundary[r.intn(len(fenBoundary))]
			}
			if strings.Contains(bad, "\n") || strings.HasPrefix(strings.TrimSpace(bad), "startpos") {
				continue
			}
			if _, err := engine.NewGeneratorFromFen(strings.TrimSpace(strings.TrimPrefix(strings.TrimSpace(bad), "fen "))); err == nil {
				continue // happens to be valid
			}
			suffix := ""
			if i%2 == 0 {
				suffix = " moves e2e4 e7e5"
			}
			form := "position "
			if i%3 == 0 {
				form = "position fen "
			}
			var before, after string
			crashed := ""
			text := captureStdout(func() {
				defer func() {
					if x := recover(); x != nil {
						crashed = fmt.Sprint(x)
					}
				}()
				engine.VerifResetSession()
				engine.ParseInputLine("position fen " + base)
				before = engine.VerifSnapshot(engine.VerifCurrent().VerifTop())
				engine.ParseInputLine(form + bad + suffix)
				after = engine.VerifSnapshot(engine.VerifCurrent().VerifTop())
			})
			so.n++
			if crashed != "" {
				so.note("crash", fmt.Sprintf("after `position fen %s`: `%s%s%s` crashed: %s", base, form, bad, suffix, crashed))
			} else if before != after {
				so.note("changed", fmt.Sprintf("after `position fen %s`: rejected `%s%s%s` changed the position", base, form, bad, suffix))
			} else if !strings.Contains(text, "invalid FEN") && !(strings.Contains(bad, "moves") && strings.Contains(text, "Invalid position command")) {
				so.note("no-message", fmt.Sprintf("`%s%s%s` printed %q instead of an `invalid FEN` message", form, bad, suffix, text))
			}
		}
		// loading is a function of the FEN text alone: the same FEN after other position commands (the same FEN with a move list,
		// another FEN, startpos with moves) gives the snapshot of a fresh load
		for i := 0; i < n/3+10; i++ {
			x := valid[r.intn(len(valid))]
			if i%5 == 0 {
				x = "rnbqkbnr/pppppppp/8/8/8/8/PPPPPPPP/RNBQKBNR w KQkq - 0 1"
			}
			gx, err := engine.NewGeneratorFromFen(x)
			if err != nil {
				continue
			}
			fresh := engine.VerifSnapshot(gx.VerifTop())
			ms := legalMoves(gx)
			var hist []string
			form := []string{"position fen ", "position "}[i%2]
			switch i % 4 {
			case 0, 1:
				if len(ms) > 0 {
					hist = append(hist, form+x+" moves "+ms[r.intn(len(ms))].text)
				}
			case 2:
				hist = append(hist, "position startpos moves e2e4 e7e5 g1f3", "position fen "+valid[r.intn(len(valid))])
			default:
				hist = append(hist, "position startpos moves d2d4", form+x, "perft 1")
			}
			var got string
			crashed := ""
			captureStdout(func() {
				defer func() {
					if x := recover(); x != nil {
						crashed = fmt.Sprint(x)
					}
				}()
				engine.VerifResetSession()
				for _, h := range hist {
					engine.ParseInputLine(h)
				}
				engine.ParseInputLine(form + x)
				if engine.VerifCurrent() != nil {
					got = engine.VerifSnapshot(engine.VerifCurrent().VerifTop())
				}
			})
			so.n++
			if crashed != "" {
				so.note("crash", fmt.Sprintf("`%s%s` after %q crashed: %s", form, x, hist, crashed))
			} else if got != fresh {
				so.note("changed", fmt.Sprintf("`%s%s` after the history %q sets up a position different from a fresh load: %s  -- fresh: %s", form, x, hist, got, fresh))
			}
		}
		fmt.Fprintf(os.Stderr, "STATS fenkeep total=%d\n", so.n)
	}
	// C09's own quantifier: attacker kind x colour x from x to x (no blocker | one blocker anywhere else)
	commands["attack"] = func(args []string) {
		so := openStream(args[0])
		defer so.close()
		full := len(args) > 1 && args[1] == "full"
		r := newRng(seedFromEnv() + 31)
		attackers := []byte{0x81, 0x41, 0x82, 0x42, 0x84, 0x44, 0x88, 0x48, 0x90, 0x50, 0xa0, 0x60}
		spare := func(from, to byte, blocker int) int {
			for i := 0; i < 64; i++ {
				s := (i>>3)<<4 | i&7
				if s == int(from) || s == int(to) || s == blocker {
					continue
				}
				df, dr := s&15-int(to&15), s>>4-int(to>>4)
				if df < 0 {
					df = -df
				}
				if dr < 0 {
					dr = -dr
				}
				if df < 2 && dr < 2 {
					continue
				}
				// not on the line between from and to
				if between(int(from), int(to), s) {
					continue
				}
				return s
			}
			return -1
		}
		for _, a := range attackers {
			for fi := 0; fi < 64; fi++ {
				for ti := 0; ti < 64; ti++ {
					if fi == ti {
						continue
					}
					f := byte((fi>>3)<<4 | fi&7)
					t := byte((ti>>3)<<4 | ti&7)
					if a&0x3f == 1 && (f>>4 == 0 || f>>4 == 7) {
						continue
					}
					for bi := -1; bi < 64; bi++ {
						bl := -1
						if bi >= 0 {
							bl = (bi>>3)<<4 | bi&7
							if bl == int(f) || bl == int(t) {
								continue
							}
							if !full && !between(int(f), int(t), bl) && !r.chance(1, 40) {
								continue
							}
						}
						k := spare(f, t, bl)
						res := guarded(func() string {
							if engine.VerifSingleAttackAt(a, f, t, bl, k) {
								return "1"
							}
							return "0"
						})
						so.emit(fmt.Sprintf("ATT\t%d %d %d %d %d", a, f, t, bl, k), res)
					}
				}
			}
		}
		fmt.Fprintf(os.Stderr, "STATS attack total=%d\n", so.n)
	}
}

func between(from, to, x int) bool {
	ff, fr, tf, tr, xf, xr := from&15, from>>4, to&15, to>>4, x&15, x>>4
	df, dr := tf-ff, tr-fr
	if !(df == 0 || dr == 0 || df == dr || df == -dr) {
		return false
	}
	sg := func(v int) int {
		if v > 0 {
			return 1
		} else if v < 0 {
			return -1
		}
		return 0
	}
	sf, sr := sg(df), sg(dr)
	for f, r := ff+sf, fr+sr; f != tf || r != tr; f, r = f+sf, r+sr {
		if f == xf && r == xr {
			return true
		}
	}
	return false
}

func countMen(fen string) int {
	men := 0
	for _, c := range strings.Fields(fen)[0] {
		if (c >= 'a' && c <= 'z') || (c >= 'A' && c <= 'Z') {
			men++
		}
	}
	return men
}

func sparsePlacement(r *rng) string {
	cells := map[int]byte{}
	free := func() int {
		for {
			s := sq(r.intn(8), r.intn(8))
			if _, used := cells[s]; !used {
				return s
			}
		}
	}
	cells[free()] = 'K'
	cells[free()] = 'k'
	n := 1 + r.intn(5)
	for i := 0; i < n; i++ {
		c := "QRBNPqrbnpQRqr"[r.intn(14)]
		for tries := 0; tries < 30; tries++ {
			s := free()
			if (c|32) == 'p' && (s>>4 == 0 || s>>4 == 7) {
				continue
			}
			cells[s] = c
			break
		}
	}
	side := "w"
	if r.chance(1, 2) {
		side = "b"
	}
	return fenFromMap(cells, side, "-", "-", 1+r.intn(40))
}

func init() {
	// verifh fens <n>: accepted positions with their number of men, legal moves and in-check flag (for the search streams)
	commands["fens"] = func(args []string) {
		n := intArg(args, 0, 200)
		r := newRng(seedFromEnv() + 271828)
		seen := map[string]bool{}
		emit := func(fen, src string) {
			if seen[fen] {
				return
			}
			gen, err := engine.NewGeneratorFromFen(fen)
			if err != nil {
				return
			}
			seen[fen] = true
			nl := len(strings.Fields(engine.VerifLegal(gen)))
			chk := 0
			if engine.VerifInCheck(gen.VerifTop()) {
				chk = 1
			}
			fmt.Fprintf(out, "%d\t%d\t%d\t%s\t%s\n", countMen(fen), nl, chk, src, fen)
		}
		emitList := func(moves []string, src string) {
			gen := engine.NewGenerator()
			for _, m := range moves {
				if err := engine.VerifApplyUci(gen, m); err != nil {
					return
				}
			}
			nl := len(strings.Fields(engine.VerifLegal(gen)))
			chk := 0
			if engine.VerifInCheck(gen.VerifTop()) {
				chk = 1
			}
			fmt.Fprintf(out, "%d\t%d\t%d\t%s\tstartpos moves %s\n", countMen(fenOfPos(gen.VerifTop())), nl, chk, src, strings.Join(moves, " "))
		}
		emitFenList := func(fen string, moves []string, src string) {
			gen, err := engine.NewGeneratorFromFen(fen)
			if err != nil {
				return
			}
			for _, m := range moves {
				// only legal moves: ApplyUciMove panics on an illegal one by design
				legal := false
				for _, l := range legalMoves(gen) {
					if l.text == m {
						legal = true
					}
				}
				if !legal {
					return
				}
				if err := engine.VerifApplyUci(gen, m); err != nil {
					return
				}
			}
			nl := len(strings.Fields(engine.VerifLegal(gen)))
			chk := 0
			if engine.VerifInCheck(gen.VerifTop()) {
				chk = 1
			}
			fmt.Fprintf(out, "%d\t%d\t%d\t%s\t%s moves %s\n", countMen(fenOfPos(gen.VerifTop())), nl, chk, src, fen, strings.Join(moves, " "))
		}
		for _, f := range corpusFens {
			emit(f, "corpus")
		}
		// a pawn promotes by capturing a rook on its home corner while that castling right is alive (given as a move list): the
		// right must be gone, a search from there must not castle with a rook that is not there
		for _, c := range []struct{ fen, mv string }{
			{"r3k2r/1P4P1/8/8/8/8/8/4K3 w kq - 0 1", "b7a8q"}, {"r3k2r/1P4P1/8/8/8/8/8/4K3 w kq - 0 1", "g7h8n"},
			{"r3k2r/1P4P1/8/8/8/8/8/4K3 w kq - 0 1", "g7h8r"}, {"4k2r/6P1/8/8/8/8/8/4K3 w k - 0 1", "g7h8n"},
			{"4k3/8/8/8/8/8/1p4p1/R3K2R b KQ - 0 1", "b2a1q"}, {"4k3/8/8/8/8/8/1p4p1/R3K2R b KQ - 0 1", "g2h1n"},
			{"4k3/8/8/8/8/8/1p4p1/R3K2R b KQ - 0 1", "b2a1b"}, {"r3k3/1P6/8/8/8/8/8/4K3 w q - 0 1", "b7a8n"},
		} {
			emitFenList(c.fen, []string{c.mv}, "corner-promo")
		}
		// a piece that is NOT a pawn moves two ranks from its side's pawn rank, given as a move list, and an enemy pawn stands
		// beside its destination: the move-list path must not leave an en-passant square behind
		for i := 0; i < n/4+4; i++ {
			fen, mv := twoRankBesidePawn(r)
			if fen != "" {
				emitFenList(fen, []string{mv}, "movelist-2rank-beside-pawn")
			}
		}
		for _, f := range mateFens {
			emit(f, "mate-corpus")
		}
		for i := 0; i < n; i++ {
			if i%3 == 0 {
				emit(mateyPlacement(r), "matey")
			}
			if i%2 == 0 {
				emit(promoPlacement(r), "promo")
			}
			emit(promoPlacement2(r), "promo2")
			if i%5 == 0 {
				if f := underpromoPlacement(r); f != "" {
					emit(f, "underpromo")
				}
			}
			if i%8 == 3 {
				if f := stalemateTrick(r); f != "" {
					emit(f, "stalemate-trick")
				}
			}
			if i%4 == 1 {
				if f, push := epTrap(r); f != "" {
					emit(f, "ep-trap")
					emitFenList(f, []string{push}, "movelist-double-push")
				}
			}
			switch i % 4 {
			case 0, 1:
				emit(sparsePlacement(r), "sparse")
			case 2:
				gm := playout(r, "startpos", 20+r.intn(220))
				emit(gm.fens[len(gm.fens)-1], "playout-end")
				emit(gm.fens[r.intn(len(gm.fens))], "playout")
				// the same game as a move list: prefixes ending with a two-rank move of a piece that is not a pawn (the
				// `position ... moves` path must not mistake it for a double pawn push), and a random prefix
				emitted := 0
				for i, m := range gm.moves {
					dr := int(m[3]) - int(m[1])
					if dr != 2 && dr != -2 {
						continue
					}
					before := parseSnap(engineSnapOfFen(gm.fens[i]))
					from := (m[1]-'1')<<4 | (m[0] - 'a')
					if before.board[from]&0x3f == 1 || emitted >= 2 {
						continue
					}
					emitList(gm.moves[:i+1], "movelist-2rank")
					emitted++
				}
				if len(gm.moves) > 0 {
					emitList(gm.moves[:1+r.intn(len(gm.moves))], "movelist")
				}
			default:
				emit(randomPlacement(r), "synthetic")
			}
		}
	}
}

func init() {
	// verifh longgames <n>: long playouts fed through the text command, then go / perft in-process
	commands["longgames"] = func(args []string) {
		n := intArg(args, 0, 6)
		r := newRng(seedFromEnv() + 1818)
		// games that carry the int16 game-ply counter past 32767 (the loader caps the move number so that this needs ~900 further
		// plies): knights shuffling out and back
		shuffle := func(k int) string { return strings.TrimSpace(strings.Repeat("g1f3 g8f6 f3g1 f6g8 ", k)) }
		var cmds []string
		var plies []int
		cmds = append(cmds, "position fen rnbqkbnr/pppppppp/8/8/8/8/PPPPPPPP/RNBQKBNR w KQkq - 0 15933 moves "+shuffle(250),
			"position fen rnbqkbnr/pppppppp/8/8/8/8/PPPPPPPP/RNBQKBNR b KQkq - 0 15933 moves g8f6 g1f3 f6g8 f3g1 "+strings.TrimSpace(strings.Repeat("g8f6 g1f3 f6g8 f3g1 ", 230)),
			"position startpos moves "+shuffle(8200))
		plies = append(plies, 1000, 924, 32800)
		for g := 0; g < n; g++ {
			gm := playout(r, "startpos", 300+r.intn(400))
			cmds = append(cmds, "position startpos moves "+strings.Join(gm.moves, " "))
			plies = append(plies, len(gm.moves))
		}
		for g, cmd := range cmds {
			status := "ok"
			exited := make(chan struct{}, 4)
			oc := startCollect()
			func() {
				defer func() {
					if x := recover(); x != nil {
						status = fmt.Sprintf("PANIC %v", x)
					}
				}()
				engine.VerifResetSession()
				engine.VerifSyncHook = func(point, a, b int) {
					if point == engine.VsAfterBestmove {
						exited <- struct{}{}
					}
				}
				engine.ParseInputLine(cmd)
				engine.ParseInputLine("perft 2")
				engine.ParseInputLine("go depth 3")
				select {
				case <-exited:
				case <-time.After(30 * time.Second):
					status = "no bestmove"
				}
			}()
			waitFor(oc, "bestmove", 1, 10*time.Second)
			engine.VerifSyncHook = nil
			lines := oc.stop()
			nb := 0
			for _, l := range lines {
				if strings.HasPrefix(l, "bestmove") {
					nb++
				}
			}
			if status == "ok" && nb != 1 {
				status = fmt.Sprintf("%d bestmove lines", nb)
			}
			if len(cmd) > 4000 {
				cmd = cmd[:2000] + " ... " + cmd[len(cmd)-200:]
			}
			fmt.Fprintf(out, "%s\t%d\t%s\n", status, plies[g], cmd)
		}
	}
}

var mateFens = []string{
	"6k1/5ppp/8/8/8/8/8/R3K3 w - - 0 1", "7k/5Q2/5K2/8/8/8/8/8 w - - 0 1", "k7/8/1K6/8/8/8/8/7R w - - 0 1", "7k/8/5K1Q/8/8/8/8/8 b - - 0 1",
	"r1bqkb1r/pppp1ppp/2n2n2/4p2Q/2B1P3/8/PPPP1PPP/RNB1K1NR w KQkq - 4 4", "6k1/6pp/8/8/8/8/1r6/K1r5 w - - 0 1", "k7/2K5/8/8/8/8/8/1R6 w - - 0 1",
	"8/8/8/8/8/1k6/8/K2r4 w - - 0 1", "5rk1/5ppp/8/8/8/8/5PPP/3R2K1 w - - 0 1", "2k5/8/2K5/8/8/8/8/4R3 w - - 0 1", "k7/8/K7/8/8/8/8/2Q5 w - - 0 1",
	"7k/6pp/8/8/8/8/8/K5R1 b - - 0 1", "1k6/8/1K6/8/8/8/8/6R1 w - - 0 1", "3k4/8/3K4/8/8/8/8/7R b - - 0 1", "8/8/8/8/8/5k2/4q3/6K1 w - - 0 1",
	"6rk/6pp/7N/8/8/8/8/K7 w - - 0 1", "kr6/pp6/8/1N6/8/8/8/K7 w - - 0 1", "4k3/4P3/4K3/8/8/8/8/8 b - - 0 1", "7k/7P/5K2/8/8/8/8/6R1 w - - 0 1",
}

// a lone king near the edge against heavy pieces: forced mates in 1-5 plies are frequent
func mateyPlacement(r *rng) string {
	cells := map[int]byte{}
	edge := func() int {
		switch r.intn(4) {
		case 0:
			return sq(r.intn(8), 0)
		case 1:
			return sq(r.intn(8), 7)
		case 2:
			return sq(0, r.intn(8))
		}
		return sq(7, r.intn(8))
	}
	lone := edge()
	whiteWins := r.chance(1, 2)
	loneC, kingC := byte('k'), byte('K')
	heavy := "QRQRBN"
	if !whiteWins {
		loneC, kingC = 'K', 'k'
		heavy = "qrqrbn"
	}
	cells[lone] = loneC
	for tries := 0; tries < 50; tries++ {
		f, rk := lone&15+r.intn(5)-2, lone>>4+r.intn(5)-2
		if f < 0 || f > 7 || rk < 0 || rk > 7 {
			continue
		}
		s := sq(f, rk)
		df, dr := f-lone&15, rk-lone>>4
		if df < 0 {
			df = -df
		}
		if dr < 0 {
			dr = -dr
		}
		if _, used := cells[s]; used || (df < 2 && dr < 2) {
			continue
		}
		cells[s] = kingC
		break
	}
	n := 1 + r.intn(2)
	for i := 0; i < n; i++ {
		for tries := 0; tries < 30; tries++ {
			s := sq(r.intn(8), r.intn(8))
			if _, used := cells[s]; !used {
				cells[s] = heavy[r.intn(len(heavy))]
				break
			}
		}
	}
	if r.chance(1, 3) {
		s := sq(r.intn(8), 1+r.intn(6))
		if _, used := cells[s]; !used {
			if whiteWins {
				cells[s] = 'p'
			} else {
				cells[s] = 'P'
			}
		}
	}
	side := "w"
	if r.chance(1, 2) {
		side = "b"
	}
	return fenFromMap(cells, side, "-", "-", 1+r.intn(60))
}

// pawns about to promote on both sides with unbalanced material: quiescence nodes where the side far behind still has a
// promotion or a capture-promotion
func promoPlacement(r *rng) string {
	cells := map[int]byte{}
	free := func() int {
		for {
			s := sq(r.intn(8), r.intn(8))
			if _, used := cells[s]; !used {
				return s
			}
		}
	}
	cells[free()] = 'K'
	cells[free()] = 'k'
	for i := 0; i < 1+r.intn(2); i++ {
		s := sq(r.intn(8), 6)
		if _, used := cells[s]; !used {
			cells[s] = 'P'
		}
		s = sq(r.intn(8), 1)
		if _, used := cells[s]; !used {
			cells[s] = 'p'
		}
	}
	strong := "QRRBN"
	n := 1 + r.intn(3)
	upper := r.chance(1, 2)
	for i := 0; i < n; i++ {
		c := strong[r.intn(len(strong))]
		if !upper {
			c += 32
		}
		cells[free()] = c
	}
	if r.chance(1, 2) {
		c := "nbr"[r.intn(3)]
		if !upper {
			c -= 32
		}
		cells[free()] = byte(c)
	}
	side := "w"
	if r.chance(1, 2) {
		side = "b"
	}
	return fenFromMap(cells, side, "-", "-", 1+r.intn(40))
}

// refmm: plain unpruned minimax of the depth-d tree of property C04 with the engine's legal-move generator and evaluation
// (full width for d plies, then captures/promotions with stand-pat on the FULL evaluation, mate/stalemate where they occur),
// plus "some quiescence node is lazy-sensitive" (|full - material part| > margin).  Used only to judge disagreements.
type refmm struct {
	nodes int
	sens  bool
	limit int
}

func (r *refmm) quiesce(gen *engine.Generator, depth int) int {
	r.nodes++
	if r.nodes > r.limit {
		panic("refmm node limit")
	}
	p := gen.VerifTop()
	var sp int
	if engine.VerifIsCheckMate(p) {
		sp = -100000 + depth
	} else {
		full, mat := engine.VerifEval(p)
		sp = full
		d := full - mat
		if d < 0 {
			d = -d
		}
		if d > 320 {
			r.sens = true
		}
	}
	best := sp
	// the material-changing moves, decided here from the board (capture = occupied target or a pawn changing file,
	// promotion = five-character move) and NOT taken from the engine's tactical generator or its tactical flags
	for _, m := range engine.VerifLegalOrdered(gen) {
		from := (m[1]-'1')<<4 | (m[0] - 'a')
		to := (m[3]-'1')<<4 | (m[2] - 'a')
		if !(len(m) == 5 || engine.VerifPieceAt(p, to) != 0 || (engine.VerifPieceAt(p, from)&0x3f == 1 && m[0] != m[2])) {
			continue
		}
		if err := engine.VerifPush(gen, m); err != nil {
			continue
		}
		v := -r.quiesce(gen, depth+1)
		engine.VerifPop(gen)
		if v > best {
			best = v
		}
	}
	return best
}

func (r *refmm) full(gen *engine.Generator, d, depth int) int {
	if d == 0 {
		return r.quiesce(gen, depth)
	}
	moves := engine.VerifLegalOrdered(gen)
	if len(moves) == 0 {
		r.nodes++
		if engine.VerifInCheck(gen.VerifTop()) {
			return -100000 + depth
		}
		return 0
	}
	best := -1 << 60
	for _, m := range moves {
		if err := engine.VerifPush(gen, m); err != nil {
			continue
		}
		v := -r.full(gen, d-1, depth+1)
		engine.VerifPop(gen)
		if v > best {
			best = v
		}
	}
	return best
}

func init() {
	// verifh refmm <file: lines "fen<TAB>depth">  ->  "OK|value|sens|nodes" per line
	commands["refmm"] = func(args []string) {
		data, _ := os.ReadFile(args[0])
		for _, l := range strings.Split(strings.TrimSpace(string(data)), "\n") {
			parts := strings.Split(l, "\t")
			res := guarded(func() string {
				gen, err := engine.NewGeneratorFromFen(parts[0])
				if err != nil {
					return "REJ"
				}
				d := 1
				fmt.Sscanf(parts[1], "%d", &d)
				r := &refmm{limit: intArg(args, 1, 30000000)}
				v := r.full(gen, d, 0)
				s := 0
				if r.sens {
					s = 1
				}
				return fmt.Sprintf("OK|%d|%d|%d", v, s, r.nodes)
			})
			out.WriteString(res)
			out.WriteByte('\n')
		}
	}
}

// like promoPlacement but with minor/rook material only and roughly balanced mobility, so that the depth-d tree rarely
// contains a lazy-sensitive node (those trees are the deviation C04 admits and cannot be used to judge the score)
func promoPlacement2(r *rng) string {
	cells := map[int]byte{}
	free := func() int {
		for {
			s := sq(r.intn(8), r.intn(8))
			if _, used := cells[s]; !used {
				return s
			}
		}
	}
	cells[free()] = 'K'
	cells[free()] = 'k'
	for i := 0; i < 1+r.intn(2); i++ {
		s := sq(r.intn(8), 5+r.intn(2))
		if _, used := cells[s]; !used {
			cells[s] = 'P'
		}
		s = sq(r.intn(8), 1+r.intn(2))
		if _, used := cells[s]; !used {
			cells[s] = 'p'
		}
	}
	for _, set := range []string{"RBNrbn", "RBNrbn"} {
		if r.chance(3, 4) {
			cells[free()] = set[r.intn(len(set))]
		}
	}
	if r.chance(1, 2) {
		cells[free()] = "RBNrbn"[r.intn(6)]
	}
	side := "w"
	if r.chance(1, 2) {
		side = "b"
	}
	return fenFromMap(cells, side, "-", "-", 1+r.intn(40))
}

func engineSnapOfFen(fen string) string {
	g, err := engine.NewGeneratorFromFen(fen)
	if err != nil {
		return ""
	}
	return engine.VerifSnapshot(g.VerifTop())
}

// a FEN and a move: a rook/queen/bishop/knight goes from rank 2 to rank 4 (white) or 7 to 5 (black), an enemy pawn stands on
// the destination rank on a neighbouring file, the mover is not a pawn
func twoRankBesidePawn(r *rng) (string, string) {
	cells := map[int]byte{}
	white := r.chance(1, 2)
	fromRank, toRank := 1, 3
	if !white {
		fromRank, toRank = 6, 4
	}
	kind := "RQBN"[r.intn(4)]
	ff := r.intn(8)
	tf := ff
	switch kind {
	case 'B':
		tf = ff + []int{-2, 2}[r.intn(2)]
	case 'N':
		tf = ff + []int{-1, 1}[r.intn(2)]
	case 'Q':
		tf = ff + []int{-2, 0, 0, 2}[r.intn(4)]
	}
	if tf < 0 || tf > 7 {
		return "", ""
	}
	pf := tf + []int{-1, 1}[r.intn(2)]
	if pf < 0 || pf > 7 {
		return "", ""
	}
	pc, pawn := kind, byte('p')
	if !white {
		pc, pawn = kind+32, 'P'
	}
	cells[sq(ff, fromRank)] = pc
	cells[sq(pf, toRank)] = pawn
	// keep the path and the midpoint free: reserve them while placing the rest
	reserved := map[int]bool{sq(tf, toRank): true, sq((ff+tf)/2, (fromRank+toRank)/2): true, sq(pf, (fromRank+toRank)/2): true}
	free := func() int {
		for {
			s := sq(r.intn(8), r.intn(8))
			if _, used := cells[s]; !used && !reserved[s] {
				return s
			}
		}
	}
	cells[free()] = 'K'
	cells[free()] = 'k'
	for i := 0; i < r.intn(4); i++ {
		c := "NBRnbrPp"[r.intn(8)]
		s := free()
		if (c|32) == 'p' && (s>>4 == 0 || s>>4 == 7) {
			continue
		}
		cells[s] = c
	}
	side := "w"
	if !white {
		side = "b"
	}
	mv := fmt.Sprintf("%c%d%c%d", 'a'+ff, fromRank+1, 'a'+tf, toRank+1)
	return fenFromMap(cells, side, "-", "-", 1+r.intn(40)), mv
}

// Positions in which UNDER-promotion matters one ply below the root: after some reply of the side to move, the opponent's pawn
// promotes, the queen promotion stalemates and the rook (or bishop) promotion does not.  Built backwards: find a position P with
// such a promotion for the side to move, then put the other king on a neighbouring square from which it can legally step to
// where it stands in P, and give that side the move.
func underpromoPlacement(r *rng) string {
	for tries := 0; tries < 40000; tries++ {
		cells := map[int]byte{}
		white := r.chance(1, 2) // colour of the promoting side
		prank, dir := 6, 1
		if !white {
			prank, dir = 1, -1
		}
		pf := r.intn(8)
		pawn, pk, ok := byte('P'), byte('K'), byte('k')
		if !white {
			pawn, pk, ok = 'p', 'k', 'K'
		}
		cells[sq(pf, prank)] = pawn
		near := func(f0, r0, d int) (int, bool) {
			f, rk := f0+r.intn(2*d+1)-d, r0+r.intn(2*d+1)-d
			if f < 0 || f > 7 || rk < 0 || rk > 7 {
				return 0, false
			}
			s := sq(f, rk)
			if _, used := cells[s]; used {
				return 0, false
			}
			return s, true
		}
		ks, good := near(pf, prank+dir, 2) // the king that may get stalemated: close to the promotion square
		if !good {
			continue
		}
		cells[ks] = ok
		ws, good := near(pf, prank, 3)
		if !good {
			continue
		}
		cells[ws] = pk
		for i := 0; i < r.intn(3); i++ {
			c := "NBnbRr"[r.intn(6)]
			if s, g := near(pf, prank, 4); g {
				cells[s] = c
			}
		}
		side, other := "w", "b"
		if !white {
			side, other = "b", "w"
		}
		fenP := fenFromMap(cells, side, "-", "-", 1+r.intn(40))
		gen, err := engine.NewGeneratorFromFen(fenP)
		if err != nil {
			continue
		}
		found := false
		for _, m := range legalMoves(gen) {
			if len(m.text) != 5 || m.text[4] != 'q' {
				continue
			}
			if engine.VerifPush(gen, m.text) != nil {
				continue
			}
			stale := len(legalMoves(gen)) == 0 && !engine.VerifInCheck(gen.VerifTop())
			engine.VerifPop(gen)
			if !stale {
				continue
			}
			if engine.VerifPush(gen, m.text[:4]+"r") != nil {
				continue
			}
			rookOK := len(legalMoves(gen)) > 0
			engine.VerifPop(gen)
			if rookOK {
				found = true
			}
		}
		if !found {
			continue
		}
		// one ply earlier: the other king comes from a neighbouring square
		for _, d := range r.perm(8) {
			df, dr := []int{-1, 0, 1, -1, 1, -1, 0, 1}[d], []int{-1, -1, -1, 0, 0, 1, 1, 1}[d]
			f, rk := ks&15+df, ks>>4+dr
			if f < 0 || f > 7 || rk < 0 || rk > 7 {
				continue
			}
			from := sq(f, rk)
			if _, used := cells[from]; used {
				continue
			}
			c2 := map[int]byte{}
			for k, v := range cells {
				c2[k] = v
			}
			delete(c2, ks)
			c2[from] = ok
			fen2 := fenFromMap(c2, other, "-", "-", 1+r.intn(40))
			g2, err := engine.NewGeneratorFromFen(fen2)
			if err != nil {
				continue
			}
			mv := fmt.Sprintf("%c%d%c%d", 'a'+f, rk+1, 'a'+ks&15, ks>>4+1)
			// the pawn promotes whatever the king does (it can neither block nor take it): the square where only an
			// under-promotion wins is then the defender's best try, so the line lies on the principal path
			canStep, alwaysPromotes := false, true
			for _, m := range legalMoves(g2) {
				if m.text == mv {
					canStep = true
				}
				if engine.VerifPush(g2, m.text) != nil {
					alwaysPromotes = false
					break
				}
				promo := false
				for _, x := range legalMoves(g2) {
					if len(x.text) == 5 {
						promo = true
					}
				}
				engine.VerifPop(g2)
				if !promo {
					alwaysPromotes = false
					break
				}
			}
			if canStep && alwaysPromotes {
				return fen2
			}
		}
	}
	return ""
}

// Positions in which the side to move saves itself by a stalemate inside the search horizon: it has a checking sacrifice with
// exactly one legal reply (taking the piece), after which it has no legal move and is not in check.  The principal variation of a
// depth >= 3 search ends in that stalemate.
func stalemateTrick(r *rng) string {
	for tries := 0; tries < 300000; tries++ {
		cells := map[int]byte{}
		free := func() int {
			for {
				s := sq(r.intn(8), r.intn(8))
				if _, used := cells[s]; !used {
					return s
				}
			}
		}
		white := r.chance(1, 2)
		K, k, own, enemy := byte('K'), byte('k'), "QRQ", "qrbnpp"
		if !white {
			K, k, own, enemy = 'k', 'K', "qrq", "QRBNPP"
		}
		corner := []int{sq(0, 0), sq(7, 0), sq(0, 7), sq(7, 7), sq(0, 3), sq(7, 4), sq(3, 0), sq(4, 7)}[r.intn(8)]
		cells[corner] = K
		near := func(d int) (int, bool) {
			f, rk := corner&15+r.intn(2*d+1)-d, corner>>4+r.intn(2*d+1)-d
			if f < 0 || f > 7 || rk < 0 || rk > 7 {
				return 0, false
			}
			s := sq(f, rk)
			if _, used := cells[s]; used {
				return 0, false
			}
			return s, true
		}
		// enemy men near the cornered king take its squares away
		for i := 0; i < 2+r.intn(3); i++ {
			if s, ok := near(3); ok {
				c := enemy[r.intn(len(enemy))]
				if (c|32) == 'p' && (s>>4 == 0 || s>>4 == 7) {
					continue
				}
				cells[s] = c
			}
		}
		cells[free()] = k
		cells[free()] = own[r.intn(len(own))]
		if r.chance(1, 2) {
			c := enemy[r.intn(len(enemy))]
			s := free()
			if !((c|32) == 'p' && (s>>4 == 0 || s>>4 == 7)) {
				cells[s] = c
			}
		}
		side := "w"
		if !white {
			side = "b"
		}
		fen := fenFromMap(cells, side, "-", "-", 1+r.intn(40))
		gen, err := engine.NewGeneratorFromFen(fen)
		if err != nil {
			continue
		}
		ms := legalMoves(gen)
		if len(ms) < 2 {
			continue
		}
		for _, m := range ms {
			if engine.VerifPush(gen, m.text) != nil {
				continue
			}
			found := false
			if engine.VerifInCheck(gen.VerifTop()) {
				rs := legalMoves(gen)
				if len(rs) == 1 && rs[0].text[2:4] == m.text[2:4] {
					if engine.VerifPush(gen, rs[0].text) == nil {
						found = len(legalMoves(gen)) == 0 && !engine.VerifInCheck(gen.VerifTop())
						engine.VerifPop(gen)
					}
				}
			}
			engine.VerifPop(gen)
			if found {
				return fen
			}
		}
	}
	return ""
}

// A double pawn push that can be answered by an en-passant capture, one ply from now: the side to move has a pawn on its second
// rank with both squares in front empty, an enemy pawn stands on the fourth rank on a neighbouring file (either side), a few
// other men.  Searched to depth 1-2 the en-passant capture is a first-ply move of quiescence.  Returned as a plain FEN and as
// "FEN moves <the push>" (the en-passant square then comes from the move-list path).
func epTrap(r *rng) (string, string) {
	for tries := 0; tries < 2000; tries++ {
		cells := map[int]byte{}
		white := r.chance(1, 2)
		f := r.intn(8)
		df := []int{-1, 1}[r.intn(2)]
		if f+df < 0 || f+df > 7 {
			continue
		}
		r2, r4 := 1, 3
		own, enemy, K, k := byte('P'), byte('p'), byte('K'), byte('k')
		if !white {
			r2, r4 = 6, 4
			own, enemy, K, k = 'p', 'P', 'k', 'K'
		}
		cells[sq(f, r2)] = own
		cells[sq(f+df, r4)] = enemy
		reserved := map[int]bool{sq(f, (r2+r4)/2): true, sq(f, r4): true}
		free := func() int {
			for {
				s := sq(r.intn(8), r.intn(8))
				if _, used := cells[s]; !used && !reserved[s] {
					return s
				}
			}
		}
		cells[free()] = K
		cells[free()] = k
		for i := 0; i < r.intn(4); i++ {
			c := "NBRnbrPp"[r.intn(8)]
			s := free()
			if (c|32) == 'p' && (s>>4 == 0 || s>>4 == 7) {
				continue
			}
			cells[s] = c
		}
		side := "w"
		if !white {
			side = "b"
		}
		fen := fenFromMap(cells, side, "-", "-", 1+r.intn(40))
		gen, err := engine.NewGeneratorFromFen(fen)
		if err != nil {
			continue
		}
		push := fmt.Sprintf("%c%d%c%d", 'a'+f, r2+1, 'a'+f, r4+1)
		for _, m := range legalMoves(gen) {
			if m.text == push {
				return fen, push
			}
		}
	}
	return "", ""
}
