// verifh: in-process harness around macsmol/magog/engine, built with -tags verif against /repo's working tree.
package main

import (
	"bufio"
	"fmt"
	"os"
)

var out = bufio.NewWriterSize(os.Stdout, 1<<20)

func main() {
	defer out.Flush()
	if len(os.Args) < 2 {
		fmt.Fprintln(os.Stderr, "usage: verifh <gen-coq|pos|game|fen|time|attack|sched|moves> ...")
		os.Exit(2)
	}
	switch os.Args[1] {
	case "gen-coq":
		genCoq()
	default:
		if f, ok := commands[os.Args[1]]; ok {
			f(os.Args[2:])
		} else {
			fmt.Fprintln(os.Stderr, "unknown subcommand", os.Args[1])
			os.Exit(2)
		}
	}
}

var commands = map[string]func([]string){}
