package main

import (
	"fmt"
	"os"
	"strings"

	"macsmol/magog/engine"
)

// GAME stream: whole games; snapshot after every ply through ApplyUciMove (the `position ... moves` path), cross-checked
// on the implementation alone against PushMove/PopMove (the search path) and against the text command in all its forms.

type gameStats struct {
	games, plies, castles, epCaptures, promotions, promoCaptures, cornerCaptures, doublePushes, longGames int
}

func upperPromo(m string) string {
	if len(m) == 5 {
		return m[:4] + strings.ToUpper(m[4:])
	}
	return m
}

func init() {
	commands["game"] = func(args []string) {
		// verifh game <out-prefix> <games> <maxPlies>
		prefix := args[0]
		games := intArg(args, 1, 50)
		maxPlies := intArg(args, 2, 160)
		r := newRng(seedFromEnv() + 77)
		so := openStream(prefix)
		defer so.close()
		devnull, _ := os.OpenFile(os.DevNull, os.O_WRONLY, 0)
		realStdout := os.Stdout
		st := gameStats{}
		starts := append([]string{"startpos", "startpos", "startpos", "startpos"}, corpusFens...)
		for g := 0; g < games; g++ {
			start := starts[r.intn(len(starts))]
			limit := maxPlies/2 + r.intn(maxPlies)
			if g%10 == 9 {
				limit = 400
			}
			gm := playout(r, start, limit)
			if len(gm.moves) == 0 {
				continue
			}
			st.games++
			if len(gm.moves) >= 300 {
				st.longGames++
			}
			// path A: ApplyUciMove, snapshot after every ply
			gen, _ := newGen(start)
			var snaps []string
			snaps = append(snaps, engine.VerifSnapshot(gen.VerifTop()))
			res := guarded(func() string {
				for i, m := range gm.moves {
					before := engine.VerifSnapshot(gen.VerifTop())
					bsn := parseSnap(before)
					from := (m[1]-'1')<<4 | (m[0] - 'a')
					to := (m[3]-'1')<<4 | (m[2] - 'a')
					// classify the ply (for the evidence: which mechanisms were exercised)
					st.plies++
					moving := bsn.board[from] & 0x3f
					if moving == 32 && (int(to)-int(from) == 2 || int(from)-int(to) == 2) {
						st.castles++
					}
					if moving == 1 && to == bsn.ep {
						st.epCaptures++
					}
					if len(m) == 5 {
						st.promotions++
						if bsn.board[to] != 0 {
							st.promoCaptures++
						}
					}
					if bsn.board[to] != 0 && (to == 0 || to == 7 || to == 0x70 || to == 0x77) {
						st.cornerCaptures++
					}
					if moving == 1 && (int(to)-int(from) == 32 || int(from)-int(to) == 32) {
						st.doublePushes++
					}
					// search path on the same position: push, compare with what ApplyUciMove gives, pop, compare with before
					if err := engine.VerifPush(gen, m); err != nil {
						so.note("push-missing", fmt.Sprintf("game %d ply %d: generated legal moves lack %s", g, i, m))
					} else {
						pushed := engine.VerifSnapshot(gen.VerifTop())
						engine.VerifPop(gen)
						after := engine.VerifSnapshot(gen.VerifTop())
						if after != before {
							so.note("unmake", fmt.Sprintf("game %d ply %d move %s: position after pop differs from before push", g, i, m))
						}
						mm := m
						if i%2 == 1 {
							mm = upperPromo(m)
						}
						if err := engine.VerifApplyUci(gen, mm); err != nil {
							return "BADMOVE"
						}
						applied := engine.VerifSnapshot(gen.VerifTop())
						if applied != pushed {
							so.note("push-vs-apply", fmt.Sprintf("game %d ply %d move %s: PushMove and ApplyUciMove disagree: %s / %s", g, i, m, pushed, applied))
						}
					}
					if e := engine.VerifStrictCheck(gen.VerifTop()); e != "" {
						so.note("bookkeeping", fmt.Sprintf("game %d ply %d after %s: %s", g, i, m, e))
					}
					snaps = append(snaps, engine.VerifSnapshot(gen.VerifTop()))
				}
				return "OK"
			})
			line := "OK|" + strings.Join(snaps, "|")
			if res != "OK" {
				line += "|" + res
			}
			so.emit("GAME\t"+start+"\t"+strings.Join(gm.moves, " "), line)

			// text command, all syntactic forms, whole game and a random prefix
			os.Stdout = devnull
			forms := []string{}
			if start == "startpos" {
				forms = append(forms, "startpos")
			} else {
				// the halfmove clock a GUI would send: anything from 0 up to "no capture or pawn move since the game began"
				// (2*(n-1), plus one with black to move), and large values from long shuffling phases
				st2 := start
				if f := strings.Fields(start); len(f) == 6 {
					n := 1
					fmt.Sscanf(f[5], "%d", &n)
					maxc := 2 * (n - 1)
					if f[1] == "b" {
						maxc++
					}
					f[4] = fmt.Sprint([]int{0, maxc, maxc, maxc / 2, 50, 99, 100, 149}[r.intn(8)])
					st2 = strings.Join(f, " ")
				}
				forms = append(forms, start, "fen "+st2, "fen   "+start, st2)
			}
			for fi, form := range forms {
				for _, n := range []int{len(gm.moves), r.intn(len(gm.moves) + 1)} {
					var cmd string
					mvs := make([]string, n)
					for i := 0; i < n; i++ {
						mvs[i] = gm.moves[i]
						if (i+fi)%2 == 0 {
							mvs[i] = upperPromo(mvs[i])
						}
					}
					if n == 0 {
						cmd = form
					} else {
						cmd = form + " moves " + strings.Join(mvs, " ")
					}
					ans := guarded(func() string {
						engine.VerifResetSession()
						engine.ParseInputLine("position " + cmd)
						cur := engine.VerifCurrent()
						if cur == nil {
							return "REJ"
						}
						if cur.VerifPlyIdx() != 0 {
							return "PLYIDX"
						}
						return "OK|" + engine.VerifSnapshot(cur.VerifTop())
					})
					if n < len(snaps) && ans != "OK|"+snaps[n] {
						so.note("position-command", fmt.Sprintf("`position %s` gives %s, playing the moves gives %s", cmd, ans, snaps[n]))
					}
					so.emit("POSCMD\t"+hexOf(cmd), ans)
				}
			}
			os.Stdout = realStdout
		}
		fmt.Fprintf(os.Stderr, "STATS game games=%d plies=%d castles=%d ep_captures=%d promotions=%d promo_captures=%d corner_captures=%d double_pushes=%d long_games=%d\n",
			st.games, st.plies, st.castles, st.epCaptures, st.promotions, st.promoCaptures, st.cornerCaptures, st.doublePushes, st.longGames)
	}
}
