package main

import (
	"fmt"
	"os"
	"strings"

	"macsmol/magog/engine"
)

// FEN stream: valid FENs (all field variants), near-valid mutations, capacity and counter boundaries, junk.

func fenImpl(s string) string {
	return guarded(func() string {
		gen, err := engine.NewGeneratorFromFen(s)
		if err != nil {
			return "REJ"
		}
		return "OK|" + engine.VerifSnapshot(gen.VerifTop())
	})
}

func mutate(r *rng, s string) string {
	b := []byte(s)
	if len(b) == 0 {
		return "x"
	}
	alphabet := "pnbrqkPNBRQK12345678/ wb-KQkqabcdefgh0369+x\t"
	switch r.intn(7) {
	case 0: // replace a byte
		b[r.intn(len(b))] = alphabet[r.intn(len(alphabet))]
	case 1: // delete a byte
		i := r.intn(len(b))
		b = append(b[:i], b[i+1:]...)
	case 2: // insert a byte
		i := r.intn(len(b) + 1)
		b = append(b[:i], append([]byte{alphabet[r.intn(len(alphabet))]}, b[i:]...)...)
	case 3: // duplicate a chunk
		i := r.intn(len(b))
		j := i + r.intn(len(b)-i)
		b = append(b[:j], append(append([]byte{}, b[i:j]...), b[j:]...)...)
	case 4: // swap two fields
		f := strings.Split(string(b), " ")
		if len(f) > 1 {
			i, j := r.intn(len(f)), r.intn(len(f))
			f[i], f[j] = f[j], f[i]
		}
		return strings.Join(f, " ")
	case 5: // change a number field
		f := strings.Split(string(b), " ")
		if len(f) >= 6 {
			nums := []string{"0", "1", "-1", "175", "176", "9999", "15933", "15934", "16383", "16384", "16385", "32768", "65536", "99999999999999999999", "", "1.5", "+3", "0x10", " 1"}
			f[4+r.intn(2)] = nums[r.intn(len(nums))]
		}
		return strings.Join(f, " ")
	default: // non-ASCII byte
		b[r.intn(len(b))] = byte(128 + r.intn(128))
	}
	return string(b)
}

func fieldVariants(r *rng, fen string) []string {
	f := strings.Fields(fen)
	var out []string
	// castling letters in other orders / duplicated, half-move clocks, move numbers
	if f[2] != "-" {
		c := []byte(f[2])
		for i := len(c) - 1; i > 0; i-- {
			j := r.intn(i + 1)
			c[i], c[j] = c[j], c[i]
		}
		out = append(out, strings.Join([]string{f[0], f[1], string(c), f[3], f[4], f[5]}, " "))
		out = append(out, strings.Join([]string{f[0], f[1], f[2] + f[2][:1], f[3], f[4], f[5]}, " "))
	}
	for _, hm := range []string{"0", "7", "99", "100", "150", "-1", "x"} {
		out = append(out, strings.Join([]string{f[0], f[1], f[2], f[3], hm, f[5]}, " "))
	}
	for _, mn := range []string{"1", "2", "60", "175", "176", "200", "5000", "9999", "15933", "15934", "16384", "20000", "0", "-3"} {
		out = append(out, strings.Join([]string{f[0], f[1], f[2], f[3], f[4], mn}, " "))
	}
	// wrong side for the ep field, ep on an occupied / unsupported square
	for _, ep := range []string{"e3", "e6", "a3", "h6", "d3", "d6", "e4", "i3", "e", "-", "--"} {
		out = append(out, strings.Join([]string{f[0], f[1], f[2], ep, f[4], f[5]}, " "))
	}
	for _, cs := range []string{"KQkq", "K", "Q", "k", "q", "Kq", "-", "", "X", "KQkqK", "kqKQ"} {
		out = append(out, strings.Join([]string{f[0], f[1], cs, f[3], f[4], f[5]}, " "))
	}
	out = append(out, strings.Join([]string{f[0], "W", f[2], f[3], f[4], f[5]}, " "), strings.Join([]string{f[0], "", f[2], f[3], f[4], f[5]}, " "))
	return out
}

// a rank field whose empty-square digits add up to 256*m + (what a correct rank needs): a byte-sized file counter wraps
func overflowRank(r *rng) string {
	var b []byte
	target := 256*(1+r.intn(2)) + 8
	tail := ""
	switch r.intn(4) {
	case 0: // ends with a piece and the rest of a normal rank
		tail = []string{"Q7", "k7", "3P4", "R6r", "7N"}[r.intn(5)]
		target -= 8
	case 1: // lands exactly on 256 and stops there (rank of width 0)
		target -= 8
	}
	sum := 0
	for sum < target {
		d := 1 + r.intn(8)
		if r.chance(1, 2) {
			d = 8
		}
		if sum+d > target {
			d = target - sum
		}
		b = append(b, byte('0'+d))
		sum += d
	}
	return string(b) + tail
}

func overflowFen(r *rng, base string) string {
	f := strings.Fields(base)
	if len(f) < 6 {
		return base
	}
	ranks := strings.Split(f[0], "/")
	ranks[r.intn(len(ranks))] = overflowRank(r)
	f[0] = strings.Join(ranks, "/")
	return strings.Join(f, " ")
}

// en-passant fields that each single test of the loader would let through on its own: the target on the rank of the WRONG side
// with a pawn of the side not to move right behind it, the two squares in front empty; the jumped square occupied; the pawn
// missing; the right rank for the side but a pawn of the wrong colour; and the genuine article next to them
func epFieldCases(r *rng) []string {
	var out []string
	for n := 0; n < 24; n++ {
		f := r.intn(8)
		file := string(rune('a' + f))
		kings := func(exclude map[int]bool) (int, int) {
			for {
				a, b := sq(r.intn(8), r.intn(8)), sq(r.intn(8), r.intn(8))
				if a == b || exclude[a] || exclude[b] || (iabs(a&15-b&15) <= 1 && iabs(a>>4-b>>4) <= 1) {
					continue
				}
				return a, b
			}
		}
		for _, v := range []struct {
			side  string
			rank  int  // rank index of the ep target
			pawn  byte // the pawn placed "behind" the target (seen from the side to move)
			prank int
		}{
			{"w", 2, 'p', 1}, {"b", 5, 'P', 6}, // wrong rank for the mover, a pawn of the other side behind the target
			{"w", 5, 'p', 4}, {"b", 2, 'P', 3}, // the genuine situation
			{"w", 5, 'P', 4}, {"b", 2, 'p', 3}, // right rank, pawn of the wrong colour
			{"w", 5, 'p', 6}, {"b", 2, 'P', 1}, // right rank, the pawn has not moved
		} {
			cells := map[int]byte{sq(f, v.prank): v.pawn}
			ex := map[int]bool{sq(f, v.prank): true, sq(f, v.rank): true, sq(f, 2*v.rank-v.prank): true}
			wk, bk := kings(ex)
			cells[wk], cells[bk] = 'K', 'k'
			if r.chance(1, 3) {
				cells[sq(f, 2*v.rank-v.prank)] = "Nn"[r.intn(2)] // the square the pawn is said to have come from is occupied
			}
			out = append(out, fenFromMap(cells, v.side, "-", file+string(rune('1'+v.rank)), 1+r.intn(50)))
		}
	}
	return out
}

var fenBoundary = []string{
	// two kings of one colour where one of them stands on a1 (square value 0) or h8
	"7k/8/8/8/8/8/8/KK6 w - - 0 1", "7k/8/8/8/8/8/8/K4K2 w - - 0 1", "7K/8/8/8/8/8/8/kk6 b - - 0 1", "k6k/8/8/8/8/8/8/K7 w - - 0 1",
	"K6k/8/8/8/8/8/8/K7 w - - 0 1", "k6K/8/8/8/8/8/8/k7 b - - 0 1", "7k/8/8/8/8/8/8/K6K w - - 0 1", "kk6/8/8/8/8/8/8/7K w - - 0 1",
	"7k/8/8/8/8/8/8/KKK5 w - - 0 1", "k7/8/8/8/8/8/8/8 w - - 0 1", "8/8/8/8/8/8/8/K7 w - - 0 1", "k7/8/8/8/8/8/8/K7 w - - 0 1", "7k/8/8/8/8/8/8/7K b - - 0 1",
	"4k3/8/8/888888888888888888888888888888888/8/8/8/4K3 w - - 0 1", "4k3/8/8/88888888888888888888888888888888Q7/8/8/8/4K3 w - - 0 1",
	"4k3/8/8/88888888888888888888888888888888/8/8/8/4K3 w - - 0 1", "4k3/8/8/8/8/8/8/4K388888888888888888888888888888888 w - - 0 1",
	"88p/8/8/8/8/8/8/8 w - - 0 1", "8/8/8/8/8/8/8/p88 w - - 0 1", "k7/8/8/8/8/8/8/K71 w - - 0 1", "k7/8/8/8/8/8/8/K8 w - - 0 1",
	"k7/8/8/8/8/8/8/K6 w - - 0 1", "88888888888888888888888888888888/8/8/8/8/8/8/8 w - - 0 1",
	"k7/8/8/8/8/8/8/888888888888888888888888888888888K w - - 0 1",
	"4k3/pppppppp/p7/8/8/8/8/4K3 w - - 0 1", "4k3/8/8/8/8/7P/PPPPPPPP/4K3 w - - 0 1",
	"4k3/8/8/8/8/QQQQQQQQ/QQQQQQQQ/4K3 w - - 0 1", "4k3/8/8/8/8/QQQQQQQQ/QQQQQQQ1/4K3 w - - 0 1",
	"4k3/P7/8/8/8/QQQQQQQQ/QQQQQQQ1/4K3 w - - 0 1", "4k3/P7/8/8/8/QQQQQQQQ/QQQQQQ2/4K3 w - - 0 1",
	"qqqqqqqq/qqqqqqq1/8/8/8/8/p7/K6k b - - 0 1", "qqqqqqqq/qqqqqq2/8/8/8/8/p7/K6k b - - 0 1",
	"8/8/8/8/8/8/8/8 w - - 0 1", "4k3/8/8/8/8/8/8/8 w - - 0 1", "8/8/8/8/8/8/8/4K3 w - - 0 1",
	"4k3/8/8/8/8/8/8/4KK2 w - - 0 1", "4kk2/8/8/8/8/8/8/4K3 w - - 0 1", "p3k3/8/8/8/8/8/8/4K3 w - - 0 1", "4k3/8/8/8/8/8/8/P3K3 w - - 0 1",
	"4k2P/8/8/8/8/8/8/4K3 w - - 0 1", "4k3/8/8/8/8/8/8/4K2p b - - 0 1",
	"4k3/8/8/8/8/8/8/4K3 w - e6 0 1", "4k3/8/8/4p3/8/8/8/4K3 w - e6 0 1", "4k3/8/8/4p3/8/8/8/4K3 b - e6 0 1", "4k3/4p3/8/4p3/8/8/8/4K3 w - e6 0 1",
	"4k3/8/4P3/4p3/8/8/8/4K3 w - e6 0 1", "4k3/8/8/8/4P3/8/8/4K3 b - e3 0 1", "4k3/8/8/8/4P3/8/8/4K3 w - e3 0 1", "4k3/8/8/8/4P3/8/4P3/4K3 b - e3 0 1",
	"4k3/8/8/8/8/8/8/4K3 w KQ - 0 1", "4k3/8/8/8/8/8/8/R3K2R w KQ - 0 1", "4k3/8/8/8/8/8/8/R3K2R w KQkq - 0 1", "r3k2r/8/8/8/8/8/8/4K3 w kq - 0 1",
	"4k3/8/8/8/8/8/8/R4K1R w KQ - 0 1", "4k3/8/8/8/8/8/8/1R2K2R w Q - 0 1", "4k3/8/8/8/8/8/8/4K2r w K - 0 1",
	"4k3/8/8/8/8/8/8/4K3 w xyz x 0 1", "4k3/8/8/8/8/8/8/4K3 w - - 0 1 extra", "4k3/8/8/8/8/8/8/4K3 w - - 0", "4k3/8/8/8/8/8/8/4K3  w - - 0 1",
	"4k3/8/8/8/8/8/8/4K3 w - - 0 1 ", " 4k3/8/8/8/8/8/8/4K3 w - - 0 1", "4k3/8/8/8/8/8/8 w - - 0 1", "4k3/8/8/8/8/8/8/8/4K3 w - - 0 1",
	"4k3/4R3/8/8/8/8/8/4K3 w - - 0 1", "4k3/4R3/8/8/8/8/8/4K3 b - - 0 1", "4k3/8/8/8/8/8/8/4K3 w - - 0 16384", "4k3/8/8/8/8/8/8/4K3 b - - 0 16384",
	"", " ", "startpos", "fen", "rnbqkbnr/pppppppp/8/8/8/8/PPPPPPPP/RNBQKBNR", "4k3/8/8/8/8/8/8/4K3 w - - 0 1\x00", "4k3/8/8/8/8/8/8/4K3\tw - - 0 1",
	"4k3/9/8/8/8/8/8/4K3 w - - 0 1", "4k3/0/8/8/8/8/8/4K3 w - - 0 1", "4k3/44/8/8/8/8/8/4K3 w - - 0 1", "4k3/45/8/8/8/8/8/4K3 w - - 0 1", "4k3/8/8/8/8/8/8/4K3 w - - 0 1/",
	"4k3/8/8/8/8/8/8/4Kx2 w - - 0 1", "4k3/8/8/8/8/8/8/4K\xc3\xa92 w - - 0 1",
}

func init() {
	commands["fen"] = func(args []string) {
		// verifh fen <out-prefix> <n>
		prefix := args[0]
		n := intArg(args, 1, 5000)
		r := newRng(seedFromEnv() + 1313)
		so := openStream(prefix)
		defer so.close()
		acc, rej, pan := 0, 0, 0
		emit := func(s string) {
			if strings.ContainsAny(s, "\n") {
				s = strings.ReplaceAll(s, "\n", " ")
			}
			res := fenImpl(s)
			switch {
			case strings.HasPrefix(res, "OK"):
				acc++
			case res == "REJ":
				rej++
			default:
				pan++
			}
			so.emit("FEN\t"+hexOf(s), res)
		}
		for _, s := range fenBoundary {
			emit(s)
		}
		// valid FENs: corpus, suite, playout positions
		var valid []string
		valid = append(valid, corpusFens...)
		valid = append(valid, suiteFens()...)
		for g := 0; len(valid) < n*2/5+200 && g < 400; g++ {
			gm := playout(r, "startpos", 40+r.intn(160))
			for i := g % 4; i < len(gm.fens); i += 4 {
				valid = append(valid, gm.fens[i])
			}
		}
		for i := 0; i < n*2/5; i++ {
			emit(valid[r.intn(len(valid))])
		}
		for i := 0; i < n/10; i++ {
			for _, v := range fieldVariants(r, valid[r.intn(len(valid))]) {
				if r.chance(1, 4) {
					emit(v)
				}
			}
		}
		for i := 0; i < n*2/5; i++ {
			s := mutate(r, valid[r.intn(len(valid))])
			if r.chance(1, 3) {
				s = mutate(r, s)
			}
			emit(s)
		}
		for i := 0; i < n/10; i++ {
			emit(randomPlacement(r))
		}
		for i := 0; i < n/20+20; i++ {
			emit(overflowFen(r, valid[r.intn(len(valid))]))
		}
		for _, s := range epFieldCases(r) {
			emit(s)
		}
		for i := 0; i < n/5; i++ {
			l := r.intn(80)
			b := make([]byte, l)
			for k := range b {
				if r.chance(9, 10) {
					b[k] = "pnbrqkPNBRQK12345678/ wb-KQkqa3e6h0"[r.intn(35)]
				} else {
					b[k] = byte(r.intn(256))
					if b[k] == '\n' {
						b[k] = ' '
					}
				}
			}
			emit(string(b))
		}
		fmt.Fprintf(os.Stderr, "STATS fen total=%d accepted=%d rejected=%d panicked=%d\n", so.n, acc, rej, pan)
	}
}

func init() {
	commands["fen1"] = func(args []string) {
		b := make([]byte, len(args[0])/2)
		for i := range b {
			fmt.Sscanf(args[0][2*i:2*i+2], "%02x", &b[i])
		}
		out.WriteString(fenImpl(string(b)))
		out.WriteByte('\n')
	}
}
