package main

import (
	"fmt"
	"os"
	"strings"

	"macsmol/magog/engine"
)

// WIDE stream: positions with more legal moves than the engine's per-ply move buffer holds without growing
// (moveBufferCapacity = 60), usually for both sides, walked to depth 3 by perft/tperft so that inner nodes with
// long move lists generate their children while the parent's list is still being iterated.

var wideFixed = []string{
	"R6R/3Q4/1Q4Q1/4Q3/2Q4Q/Q4Q2/pp1Q4/kBNN1KB1 w - - 0 1", // 218 moves
	"7k/8/8/8/Q1Q1Q3/8/3Q1Q2/KQ6 w - - 0 1",
	"K4k2/8/7q/8/8/1Qr5/Q3Q2Q/8 w - - 0 1",
	"1r3rk1/2q2ppp/8/8/Q1Q5/8/1Q1Q1Q2/K7 w - - 0 1",
	"2q1k1q1/q6q/8/8/8/8/Q6Q/1Q1K2Q1 w - - 0 1",
	"2q1k1q1/q6q/8/8/8/8/Q6Q/1Q3KQ1 b - - 0 1",
	"q2k2q1/2q5/5q2/8/8/2Q5/5Q2/1Q1K2Q1 b - - 5 30",
	"4k3/1P1P1P1P/8/8/8/8/Q2Q2Q1/R3K2R w KQ - 0 1", // promotions x4 each, castling
	"r3k2r/q2q2q1/8/8/8/8/1p1p1p1p/4K3 b kq - 0 1",
}

func widePlacement(r *rng) string {
	cells := map[int]byte{}
	free := func() int {
		for {
			s := sq(r.intn(8), r.intn(8))
			if _, used := cells[s]; !used {
				return s
			}
		}
	}
	cells[free()] = 'K'
	cells[free()] = 'k'
	both := r.chance(1, 2)
	whiteWide := r.chance(1, 2)
	for _, white := range []bool{true, false} {
		wide := both || white == whiteWide
		n := r.intn(3)
		if wide {
			n = 3 + r.intn(5)
		}
		for i := 0; i < n; i++ {
			c := byte('q')
			if r.chance(1, 5) {
				c = "rbn"[r.intn(3)]
			}
			if white {
				c -= 32
			}
			cells[free()] = c
		}
		// a few pawns, some about to promote
		for i := 0; i < r.intn(3); i++ {
			rank := 1 + r.intn(6)
			if r.chance(1, 2) {
				if white {
					rank = 6
				} else {
					rank = 1
				}
			}
			s := sq(r.intn(8), rank)
			if _, used := cells[s]; !used {
				if white {
					cells[s] = 'P'
				} else {
					cells[s] = 'p'
				}
			}
		}
	}
	side := "w"
	if (both && r.chance(1, 2)) || (!both && !whiteWide) {
		side = "b"
	}
	return fenFromMap(cells, side, "-", "-", 1+r.intn(60))
}

func wideFens(r *rng, n int) []string {
	var fens []string
	for _, f := range wideFixed {
		if gen, err := engine.NewGeneratorFromFen(f); err == nil && len(strings.Fields(engine.VerifLegal(gen))) > 60 {
			fens = append(fens, f)
		}
	}
	for tries := 0; len(fens) < n && tries < 200000; tries++ {
		f := widePlacement(r)
		gen, err := engine.NewGeneratorFromFen(f)
		if err != nil {
			continue
		}
		if len(strings.Fields(engine.VerifLegal(gen))) <= 60 {
			continue
		}
		fens = append(fens, f)
	}
	if len(fens) > n {
		fens = fens[:n]
	}
	return fens
}

func init() {
	// verifh wide <out-prefix> <positions> <depth>: PERFT/TPERFT lines for depths 1..depth
	commands["wide"] = func(args []string) {
		prefix := args[0]
		n := intArg(args, 1, 30)
		depth := intArg(args, 2, 3)
		r := newRng(seedFromEnv() + 6060)
		so := openStream(prefix)
		defer so.close()
		maxMoves := 0
		for _, fen := range wideFens(r, n) {
			if gen, err := engine.NewGeneratorFromFen(fen); err == nil {
				if k := len(strings.Fields(engine.VerifLegal(gen))); k > maxMoves {
					maxMoves = k
				}
			}
			for d := 1; d <= depth; d++ {
				so.emit(fmt.Sprintf("PERFT\t%s\t%d", fen, d), perftViaCommand(fen, "perft", d))
				so.emit(fmt.Sprintf("TPERFT\t%s\t%d", fen, d), perftViaCommand(fen, "tperft", d))
			}
		}
		fmt.Fprintf(os.Stderr, "STATS wide total=%d max_root_moves=%d\n", so.n, maxMoves)
	}
	// verifh widefens <n>: the same positions, one per line (for the search streams)
	commands["widefens"] = func(args []string) {
		r := newRng(seedFromEnv() + 6060)
		for _, fen := range wideFens(r, intArg(args, 0, 30)) {
			gen, _ := engine.NewGeneratorFromFen(fen)
			fmt.Fprintf(out, "%s\t%s\n", fen, engine.VerifLegal(gen))
		}
	}
}
