(* Oracle: runs the extracted Coq model on case files.  One request per input line, one answer per output line.
   The extracted modules List/String/Bool/Nat shadow OCaml's, hence Stdlib.* below. *)
open BinNums
open Datatypes

let rec int_of_p = function Coq_xH -> 1 | Coq_xO p -> 2 * int_of_p p | Coq_xI p -> 2 * int_of_p p + 1
let int_of_z = function Z0 -> 0 | Zpos p -> int_of_p p | Zneg p -> - (int_of_p p)
let rec p_of_int n = if n = 1 then Coq_xH else if n land 1 = 0 then Coq_xO (p_of_int (n lsr 1)) else Coq_xI (p_of_int (n lsr 1))
let z_of_int n = if n = 0 then Z0 else if n > 0 then Zpos (p_of_int n) else Zneg (p_of_int (-n))
let rec nat_of_int n = if n <= 0 then O else S (nat_of_int (n - 1))
(* decimal text of an arbitrary Z (may exceed OCaml's int): repeated division by 10 on positives *)
let z_to_string (z : coq_Z) : string =
  let rec go (z : coq_Z) acc =
    match z with
    | Z0 -> if acc = "" then "0" else acc
    | _ -> let q = BinInt.Z.div z (z_of_int 10) and r = BinInt.Z.modulo z (z_of_int 10) in
           go q (string_of_int (int_of_z r) ^ acc) in
  match z with Zneg p -> "-" ^ go (Zpos p) "" | _ -> go z ""

let ascii_of_char (c : char) : Ascii.ascii =
  let n = Char.code c in let b i = (n lsr i) land 1 = 1 in
  Ascii.Ascii (b 0, b 1, b 2, b 3, b 4, b 5, b 6, b 7)
let char_of_ascii (Ascii.Ascii (b0, b1, b2, b3, b4, b5, b6, b7)) : char =
  let v b i = if b then 1 lsl i else 0 in
  Char.chr (v b0 0 + v b1 1 + v b2 2 + v b3 3 + v b4 4 + v b5 5 + v b6 6 + v b7 7)
let coq_string (s : string) : String.string =
  let r = ref String.EmptyString in
  for i = Stdlib.String.length s - 1 downto 0 do r := String.String (ascii_of_char (Stdlib.String.get s i), !r) done; !r
let ocaml_string (s : String.string) : string =
  let b = Buffer.create 16 in
  let rec go = function String.EmptyString -> () | String.String (c, r) -> Buffer.add_char b (char_of_ascii c); go r in
  go s; Buffer.contents b

let unhex (h : string) : string =
  let n = Stdlib.String.length h / 2 in
  Stdlib.String.init n (fun i -> Char.chr (int_of_string ("0x" ^ Stdlib.String.sub h (2 * i) 2)))
let hex2 n = Printf.sprintf "%02x" (n land 255)

let snapshot (p : Position.pos) : string =
  let b = Buffer.create 400 in
  Buffer.add_string b "B=";
  Stdlib.List.iter (fun c -> Buffer.add_string b (hex2 (int_of_z (Position.cell_byte c)))) p.Position.board;
  let lst name l = Buffer.add_string b (" " ^ name ^ "="); Stdlib.List.iter (fun s -> Buffer.add_string b (hex2 (int_of_z s))) l in
  lst "bq" p.Position.bpieces; lst "wq" p.Position.wpieces; lst "bp" p.Position.bpawns; lst "wp" p.Position.wpawns;
  Buffer.add_string b (Printf.sprintf " bk=%s wk=%s fl=%s ep=%s ply=%d" (hex2 (int_of_z p.Position.bking)) (hex2 (int_of_z p.Position.wking))
    (hex2 (int_of_z (Position.flags_byte p))) (hex2 (int_of_z p.Position.ep)) (int_of_z p.Position.ply));
  Buffer.contents b

let mv_text (m : Make.move) = ocaml_string (Uci.move_string m)
let sq_text s = let s = int_of_z s in Printf.sprintf "%c%c" (Char.chr (97 + (s land 15))) (Char.chr (49 + (s lsr 4)))
let rmv_text (r : Gen.rmove) =
  mv_text r.Gen.rm ^ (if r.Gen.tactical then "*" else "") ^
  (if int_of_z r.Gen.rm.Make.mep <> 136 then "@" ^ sq_text r.Gen.rm.Make.mep else "")
let sorted_join l = Stdlib.String.concat " " (Stdlib.List.sort compare l)

let attack_map (p : Position.pos) : string =
  let bits = Bytes.make 16 '\000' in
  for c = 0 to 1 do
    for i = 0 to 63 do
      let sq = ((i lsr 3) lsl 4) lor (i land 7) in
      if Attack.attacked_by p (c = 0) (z_of_int sq) then begin
        let k = c * 8 + i / 8 in
        Bytes.set bits k (Char.chr (Char.code (Bytes.get bits k) lor (1 lsl (i mod 8))))
      end
    done
  done;
  Stdlib.String.concat "" (Stdlib.List.init 16 (fun k -> hex2 (Char.code (Bytes.get bits k))))

let panic_text w = "PANIC " ^ string_of_int (int_of_z w)

let load_fen (fen : string) : (Position.pos, string) Stdlib.result =
  match Fen.parse_fen (coq_string fen) with
  | Base.Panic w -> Error (panic_text w)
  | Base.Ok (Fen.FenErr e) -> Error ("REJ " ^ string_of_int (int_of_z e))
  | Base.Ok (Fen.FenOk p) -> Stdlib.Ok p

let find_sub (s : string) (sub : string) : int option =
  let n = Stdlib.String.length s and m = Stdlib.String.length sub in
  let rec go i = if i + m > n then None else if Stdlib.String.sub s i m = sub then Some i else go (i + 1) in go 0

(* "startpos", a FEN, or either followed by " moves m1 m2 ..." (played through Uci.apply_uci) *)
let start_of (s : string) : (Position.pos, string) Stdlib.result =
  let base, moves = match find_sub s " moves " with
    | Some i -> Stdlib.String.sub s 0 i, Stdlib.String.split_on_char ' ' (Stdlib.String.sub s (i + 7) (Stdlib.String.length s - i - 7))
    | None -> s, [] in
  let p0 = if base = "startpos" then Stdlib.Ok Position.startpos else load_fen base in
  Stdlib.List.fold_left (fun acc m -> match acc with
    | Error e -> Error e
    | Stdlib.Ok p -> if m = "" then Stdlib.Ok p else
      (match Uci.parse_move (coq_string m) with
       | None -> Error "BADTEXT"
       | Some mv -> (match Uci.apply_uci p mv with Base.Panic w -> Error (panic_text w) | Base.Ok p' -> Stdlib.Ok p'))) p0 moves

let do_pos (p : Position.pos) : string =
  match Gen.gen_legal p, Gen.gen_tactical p with
  | Base.Panic w, _ | _, Base.Panic w -> panic_text w
  | Base.Ok legal, Base.Ok tact ->
    Printf.sprintf "OK|%s|%s|%s|%d|%d|%d|%s|%d|%d|%d"
      (snapshot p) (sorted_join (Stdlib.List.map rmv_text legal)) (sorted_join (Stdlib.List.map rmv_text tact))
      (int_of_z (Count.count_moves p)) (int_of_z (Gen.count_tactical p))
      (if Attack.in_check p then 1 else 0) (attack_map p)
      (int_of_z (Eval.evaluate p Z0)) (int_of_z (Eval.psq_score p)) (if WF.wf_legal p then 1 else 0)

let parse_mv (s : string) : Make.move option = Uci.parse_move (coq_string s)

let do_game (start : string) (moves : string list) : string =
  match start_of start with
  | Error e -> e
  | Stdlib.Ok p0 ->
    let b = Buffer.create 4096 in
    Buffer.add_string b "OK|"; Buffer.add_string b (snapshot p0);
    let allwf = ref (WF.wf_legal p0) in
    let rec go p = function
      | [] -> Buffer.contents b ^ (if !allwf then "" else "|NOTWF")
      | m :: rest ->
        (match parse_mv m with
         | None -> Buffer.contents b ^ "|BADMOVE"
         | Some mv ->
           (match Uci.apply_uci p mv with
            | Base.Panic w -> Buffer.contents b ^ "|" ^ panic_text w
            | Base.Ok p' -> if not (WF.wf_legal p') then allwf := false;
                            Buffer.add_char b '|'; Buffer.add_string b (snapshot p'); go p' rest)) in
    go p0 moves

let perft_rows (rows : (Make.move * coq_Z) list) (total : coq_Z) =
  Printf.sprintf "OK|%s|%s" (sorted_join (Stdlib.List.map (fun (m, v) -> mv_text m ^ ":" ^ z_to_string v) rows)) (z_to_string total)

let kind_code = function None -> 0 | Some Position.Pawn -> 1 | Some Position.Knight -> 2 | Some Position.Bishop -> 4 | Some Position.Rook -> 8 | Some Position.Queen -> 16 | Some Position.King -> 32

let gen_order (_ : Position.pos) (l : Gen.rmove list) = l
(* captures first: any permutation is admissible for the value (theorem), this one prunes better *)
let tact_first (_ : Position.pos) (l : Gen.rmove list) =
  Stdlib.List.filter (fun r -> r.Gen.tactical) l @ Stdlib.List.filter (fun r -> not r.Gen.tactical) l

let do_search (fen : string) (depth : int) (order : string) : string =
  match start_of fen with
  | Error e -> e
  | Stdlib.Ok p ->
    let ord = if order = "gen" then gen_order else tact_first in
    (match Search.iterate ord (nat_of_int depth) p with
     | Base.Panic w -> panic_text w
     | Base.Ok Search.GoNoMove -> "NOMOVE"
     | Base.Ok (Search.GoMove (iters, best)) ->
       let it (i : Search.iter) =
         Printf.sprintf "%d:%d:%d:%s" (int_of_z i.Search.it_depth) (int_of_z i.Search.it_score) (if i.Search.it_sens then 1 else 0)
           (Stdlib.String.concat "," (Stdlib.List.map mv_text i.Search.it_pv)) in
       Printf.sprintf "OK|%s|%s" (Stdlib.String.concat ";" (Stdlib.List.map it iters)) (mv_text best))

let do_minimax (fen : string) (depth : int) : string =
  match start_of fen with
  | Error e -> e
  | Stdlib.Ok p ->
    (match Search.minimax (nat_of_int depth) p Z0 with
     | Base.Panic w -> panic_text w
     | Base.Ok v -> "OK|" ^ string_of_int (int_of_z v))

let do_time (side : string) (args : string) : string =
  let toks = Stdlib.List.map coq_string (Stdlib.String.split_on_char ' ' args) in
  match Uci.parse_go toks Uci.go_defaults with
  | None -> "IGN"
  | Some a ->
    (match Uci.allotted_ns (side = "w") a with
     | Base.Panic w -> panic_text w
     | Base.Ok ns -> "NS " ^ z_to_string ns ^ " D " ^ z_to_string a.Uci.ga_depth)

let code_text (c : coq_Z) : string =
  let c = int_of_z c in
  let k = c land 7 and t = (c lsr 3) land 255 and f = c lsr 11 in
  let sqs s = Printf.sprintf "%c%c" (Char.chr (97 + (s land 15))) (Char.chr (49 + (s lsr 4))) in
  sqs f ^ sqs t ^ (match k with 1 -> "n" | 2 -> "b" | 3 -> "r" | 4 -> "q" | 0 -> "" | _ -> "?")

let spec_attack_map (p : Position.pos) : string =
  let bits = Bytes.make 16 '\000' in
  for c = 0 to 1 do
    for i = 0 to 63 do
      let sq = ((i lsr 3) lsl 4) lor (i land 7) in
      if Abs.spec_attacked p (c = 0) (z_of_int sq) then begin
        let k = c * 8 + i / 8 in
        Bytes.set bits k (Char.chr (Char.code (Bytes.get bits k) lor (1 lsl (i mod 8))))
      end
    done
  done;
  Stdlib.String.concat "" (Stdlib.List.init 16 (fun k -> hex2 (Char.code (Bytes.get bits k))))

(* answers computed from the specification alone (on the abstraction of the loaded position) *)
let do_spec (p : Position.pos) : string =
  Printf.sprintf "OK|%s|%s|%d|%s|%d|%d|%d"
    (sorted_join (Stdlib.List.map code_text (Abs.spec_legal_codes p)))
    (sorted_join (Stdlib.List.map code_text (Abs.spec_tactical_codes p)))
    (if Abs.spec_in_check p then 1 else 0) (spec_attack_map p)
    (if Abs.spec_legal_position p then 1 else 0) (if Abs.make_refines p then 1 else 0)
    (if MakeSpec.make_spec_check p then 1 else 0)

(* one session: lines separated by \n; answer = per line the classes of what it printed, lines joined by ';' *)
let out_class (o : Session.out) : string =
  match o with
  | Session.OReadyOk -> "readyok" | Session.ONoPositionEval -> "noposeval" | Session.OEval v -> "eval:" ^ z_to_string v
  | Session.OInvalidFen -> "invalidfen" | Session.OInvalidMove -> "invalidmove" | Session.OUciInfo -> "uci"
  | Session.ONoPositionGo -> "noposgo"
  | Session.OSearch evs ->
    (match Stdlib.List.rev evs with
     | SearchImp.EvBestMoveNone :: _ -> "search:0000"
     | SearchImp.EvBestMove _ :: _ -> "search:move"
     | _ -> "search:?")
  | Session.OInvalidDepth -> "invaliddepth" | Session.ONoPositionPerft -> "noposperft"
  | Session.OPerft (rows, total) -> Printf.sprintf "perft:%s:%d" (z_to_string total) (Stdlib.List.length rows)
  | Session.OTPerft (rows, total) -> Printf.sprintf "tperft:%s:%d" (z_to_string total) (Stdlib.List.length rows)
  | Session.OTostr -> "tostr" | Session.OHelp -> "help"

let do_session (script : string) : string =
  let lines = Stdlib.String.split_on_char '\n' script in
  let buf = Buffer.create 256 in
  let rec go s = function
    | [] -> Buffer.contents buf
    | l :: rest ->
      (match Session.handle Session.stub_search s Session.quiet_env (coq_string l) with
       | Base.Panic w -> Buffer.add_string buf (panic_text w); Buffer.contents buf
       | Base.Ok (s', outs) ->
         Buffer.add_string buf (Stdlib.String.concat "," (Stdlib.List.map out_class outs));
         Buffer.add_string buf (Printf.sprintf "|%d" (int_of_z s'.Session.s_log));
         if s'.Session.s_quit then (Buffer.add_string buf ";QUIT"; Buffer.contents buf)
         else (if rest <> [] then Buffer.add_char buf ';'; go s' rest)) in
  go Session.sess0 lines

let fnv64 (s : string) : string =
  let h = ref 0xcbf29ce484222325L in
  Stdlib.String.iter (fun c -> h := Int64.logxor !h (Int64.of_int (Char.code c)); h := Int64.mul !h 0x100000001b3L) s;
  Printf.sprintf "%016Lx" !h

(* every legal move of the position: digest of the successor snapshot and of its legal move set *)
let do_succ (p : Position.pos) : string =
  match Gen.gen_legal p with
  | Base.Panic w -> panic_text w
  | Base.Ok legal ->
    let rows = Stdlib.List.map (fun (r : Gen.rmove) ->
      let t = mv_text r.Gen.rm in
      match Uci.parse_move (coq_string t) with
      | None -> t ^ ":BADTEXT"
      | Some m ->
        (match Uci.apply_uci p m with
         | Base.Panic w -> t ^ ":" ^ panic_text w
         | Base.Ok p' ->
           (match Gen.gen_legal p' with
            | Base.Panic w -> t ^ ":" ^ fnv64 (snapshot p') ^ ":" ^ panic_text w
            | Base.Ok l2 -> t ^ ":" ^ fnv64 (snapshot p') ^ ":" ^ fnv64 (sorted_join (Stdlib.List.map rmv_text l2))
                             ^ (if WF.wf_legal p' then "" else ":NOTWF")))) legal in
    "OK|" ^ sorted_join rows

(* PROTO: a run of the two-thread transition system of Protocol.v; tokens as written by `verifh proto` *)
let rec int_of_nat = function O -> 0 | S n -> 1 + int_of_nat n
let proto_obs (s : Protocol.pstate) : string =
  let intr, ph = (match s.Protocol.sp with
    | Protocol.SIdle -> 0, "I" | Protocol.SSpawned -> 0, "S"
    | Protocol.SRunning (i, _) -> (if i then 1 else 0), "R" | Protocol.SFinishing -> 0, "F") in
  Printf.sprintf "%d,%d,%d,%d,%d,%s" (if s.Protocol.running then 1 else 0) (match s.Protocol.chan with Some _ -> 1 | None -> 0)
    (int_of_nat s.Protocol.bestmoves) (int_of_nat s.Protocol.readyoks) intr ph
let do_proto (tokens : string list) : string =
  let labels = function
    | "isready" -> [Protocol.LIsReady] | "other" -> [Protocol.LOther]
    | "stop" -> [Protocol.LStopLoad; Protocol.LStopSend]
    | "go" -> [Protocol.LGoDrain; Protocol.LGoStore; Protocol.LGoSpawn]
    | "enter" -> [Protocol.LEnter] | "poll" -> [Protocol.LPoll]
    | "complete" -> [Protocol.LComplete] | "print" -> [Protocol.LPrint]
    | _ -> [] in
  let out = ref [] in
  let rec go s k = function
    | [] -> ()
    | "obs" :: r -> out := proto_obs s :: !out; go s (k + 1) r
    | t :: r ->
      let rec steps s = function
        | [] -> Some s
        | l :: ls -> (match Protocol.step s l with Some s' -> steps s' ls | None -> None) in
      (match steps s (labels t) with
       | Some s' -> go s' (k + 1) r
       | None -> out := (Printf.sprintf "STUCK at token %d (%s): label not enabled in the model" k t) :: !out) in
  go Protocol.init 0 tokens;
  Stdlib.String.concat "|" (Stdlib.List.rev !out)

let handle (line : string) : string =
  match Stdlib.String.split_on_char '\t' line with
  | ["POS"; fen] -> (match load_fen fen with Error e -> e | Stdlib.Ok p -> do_pos p)
  | ["SUCC"; fen] -> (match load_fen fen with Error e -> e | Stdlib.Ok p -> do_succ p)
  | ["SPEC"; fen] -> (match load_fen fen with Error e -> e | Stdlib.Ok p -> do_spec p)
  | ["FEN"; hx] -> (match load_fen (unhex hx) with Error e -> e | Stdlib.Ok p -> "OK|" ^ snapshot p)
  | ["GAME"; start; moves] -> do_game start (if moves = "" then [] else Stdlib.String.split_on_char ' ' moves)
  | ["POSCMD"; hx] ->
    (match Uci.do_position (coq_string (unhex hx)) with
     | Base.Panic w -> panic_text w
     | Base.Ok (Uci.PosSet p) -> "OK|" ^ snapshot p
     | Base.Ok Uci.PosInvalidFen -> "REJ"
     | Base.Ok (Uci.PosInvalidMove (Some p)) -> "BADMOVE|" ^ snapshot p
     | Base.Ok (Uci.PosInvalidMove None) -> "BADMOVE|")
  | ["PERFT"; fen; n] ->
    (match start_of fen with Error e -> e | Stdlib.Ok p ->
      (match Perft.perft_divide (nat_of_int (int_of_string n)) p with
       | Base.Panic w -> panic_text w | Base.Ok (rows, total) -> perft_rows rows total))
  | ["TPERFT"; fen; n] ->
    (match start_of fen with Error e -> e | Stdlib.Ok p ->
      (match Perft.tperft_divide (nat_of_int (int_of_string n)) p with
       | Base.Panic w -> panic_text w | Base.Ok (rows, total) -> perft_rows rows total))
  | ["MOVE"; hx] ->
    (match parse_mv (unhex hx) with
     | None -> "ERR"
     | Some m -> Printf.sprintf "OK %d %d %d" (int_of_z m.Make.mfrom) (int_of_z m.Make.mto) (kind_code m.Make.mpromo))
  | ["SESS"; hx] -> do_session (unhex hx)
  | ["ATT"; args] ->
    (match Stdlib.List.map int_of_string (Stdlib.String.split_on_char ' ' args) with
     | [a; f; t; bl; k] ->
       let kind = match a land 63 with 1 -> Position.Pawn | 2 -> Position.Knight | 4 -> Position.Bishop | 8 -> Position.Rook | 16 -> Position.Queen | _ -> Position.King in
       let col = if a land 128 <> 0 then Position.White else Position.Black in
       let (m, s) = Abs.att_case (Position.Pc (col, kind)) (z_of_int f) (z_of_int t) (z_of_int bl) (z_of_int k) in
       Printf.sprintf "%d %d" (if m then 1 else 0) (if s then 1 else 0)
     | _ -> "BADREQ")
  | ["MATE"; fen; n] ->
    (match start_of fen with Error e -> e | Stdlib.Ok p ->
      (match Abs.spec_mate_score (nat_of_int (int_of_string n)) p with
       | None -> "NONE" | Some v -> "MATE " ^ string_of_int (int_of_z v)))
  | ["MMATE"; fen; n] ->
    (match start_of fen with Error e -> e | Stdlib.Ok p ->
      (match Abs.model_mate_score (nat_of_int (int_of_string n)) p with
       | None -> "NONE" | Some v -> "MATE " ^ string_of_int (int_of_z v)))
  | ["MMATEAFTER"; fen; mv; n] ->
    (match start_of fen with Error e -> e | Stdlib.Ok p ->
      (match parse_mv mv with None -> "BADTEXT" | Some m ->
        (match Uci.apply_uci p m with
         | Base.Panic w -> panic_text w
         | Base.Ok p' ->
           (match Abs.model_mate_score (nat_of_int (int_of_string n)) p' with
            | None -> "NONE" | Some v -> "MATE " ^ string_of_int (int_of_z v)))))
  | ["LINE"; fen; moves] ->
    (match start_of fen with Error e -> e | Stdlib.Ok p ->
      let ms = Stdlib.List.map parse_mv (if moves = "" then [] else Stdlib.String.split_on_char ' ' moves) in
      if Stdlib.List.exists (fun m -> m = None) ms then "BADTEXT" else
      let ms = Stdlib.List.map (function Some m -> m | None -> assert false) ms in
      "LINE " ^ string_of_int (int_of_z (Abs.line_legal p ms Z0)))
  | ["SEARCH"; fen; d; order] -> do_search fen (int_of_string d) order
  | ["MINIMAX"; fen; d] -> do_minimax fen (int_of_string d)
  | ["MINIMAXS"; fen; d] ->
    (match start_of fen with Error e -> e | Stdlib.Ok p ->
      (match Search.minimax_s (nat_of_int (int_of_string d)) p Z0 with
       | Base.Panic w -> panic_text w
       | Base.Ok (v, s) -> Printf.sprintf "OK|%d|%d" (int_of_z v) (if s then 1 else 0)))
  | ["LAZY"; fen; d; a; b] ->
    (match load_fen fen with Error e -> e | Stdlib.Ok p ->
      "OK|" ^ string_of_int (int_of_z (Eval.lazy_eval p (z_of_int (int_of_string d)) (z_of_int (int_of_string a)) (z_of_int (int_of_string b)))))
  | ["TIME"; side; args] -> do_time side args
  | ["PROTO"; toks] -> do_proto (Stdlib.String.split_on_char ' ' toks)
  | _ -> "BADREQ"

exception Timeout
let () =
  let limit = try int_of_string (Sys.getenv "ORACLE_TIMEOUT") with _ -> 25 in
  Sys.set_signal Sys.sigalrm (Sys.Signal_handle (fun _ -> raise Timeout));
  (try while true do
    let line = input_line stdin in
    let ans = (try ignore (Unix.alarm limit); let a = handle line in ignore (Unix.alarm 0); a
               with Timeout -> "TIMEOUT" | Stack_overflow -> ignore (Unix.alarm 0); "STACKOVERFLOW") in
    print_string ans; print_newline ()
  done with End_of_file -> ())
